----------------------------- MODULE Field_Trace -----------------------------
(* C10 replay validation.  PrimeField(m) is Z/m over BigNat; the quadratic   *)
(* extensions are F_p[u]/(u^2 + 1) with elements <<c0, c1>>.  Every line is  *)
(* one call of a field type of midnight-curves with integer arguments and    *)
(* result; TLC recomputes it.  Constants are checked against their defining  *)
(* equations; encodings against canonicity (a decoder accepts exactly the    *)
(* integers below the modulus); reduction from uniform bytes against the     *)
(* little-endian integer modulo m.                                          *)
EXTENDS Tower, Json, IOUtils, Sequences, TLC

Rec == ndJsonDeserialize(IOEnv.TRACE)
VARIABLE l
Ev == Rec[l]
Has(e, f) == f \in DOMAIN e

ModulusOf(f) ==
  CASE f = "bls_fq" -> BlsR [] f \in {"bls_fp", "bls_fp2", "bls_fp6", "bls_fp12"} -> BlsP [] f = "jub_fr" -> JubR
    [] f = "secp_fp" -> SecpP [] f = "secp_fq" -> SecpN [] f = "c25519_fp" -> C25519P [] f = "c25519_scalar" -> C25519L
    [] f \in {"bn_fq", "bn_fq2", "bn_fq6", "bn_fq12"} -> Bn254P [] f = "bn_fr" -> Bn254R
IsQuad(f) == f \in {"bls_fp2", "bn_fq2"}
IsSext(f) == f \in {"bls_fp6", "bn_fq6"}
IsDuo(f) == f \in {"bls_fp12", "bn_fq12"}
TowerOf(f) == IF f \in {"bls_fp2", "bls_fp6", "bls_fp12"} THEN BlsT ELSE BnT

Rev(s) == [i \in 1..Len(s) |-> s[Len(s) + 1 - i]]
Opt(o) == IF o.some THEN <<"some", o.v>> ELSE <<"none", <<>>>>

PrimeOK(e, m) ==
  LET x == Rem(e.ins[1], m)
      y == IF Len(e.ins) >= 2 THEN Rem(e.ins[2], m) ELSE Zero
  IN CASE e.op = "embed" -> e.out = x
       [] e.op = "add" -> e.out = AddM(x, y, m)
       [] e.op = "sub" -> e.out = SubM(x, y, m)
       [] e.op = "mul" -> e.out = MulM(x, y, m)
       [] e.op = "neg" -> e.out = NegM(x, m)
       [] e.op = "square" -> e.out = MulM(x, x, m)
       [] e.op = "cube" -> e.out = MulM(MulM(x, x, m), x, m)
       [] e.op = "double" -> e.out = AddM(x, x, m)
       [] e.op = "eq" -> e.out = (x = y)
       [] e.op = "is_zero" -> e.out = (x = Zero)
       [] e.op = "is_odd" -> e.out = (Bit(x, 0) = 1)
       [] e.op = "pow" -> e.out = PowM(x, e.ins[2], m)
       [] e.op = "invert" -> IF x = Zero THEN ~e.out.some ELSE e.out.some /\ MulM(x, e.out.v, m) = One
       [] e.op = "batch_invert" -> IF x = Zero THEN e.out = Zero ELSE MulM(x, e.out, m) = One
       [] e.op = "sqrt" -> IF IsSquareM(x, m) THEN e.out.some /\ Lt(e.out.v, m) /\ MulM(e.out.v, e.out.v, m) = x ELSE ~e.out.some
       \* the quadratic-residue test: 0 for zero, 1 for non-zero squares, -1 for non-squares (zero counts as a residue)
       [] e.op = "legendre" -> e.out = (IF x = Zero THEN 0 ELSE IF IsSquareM(x, m) THEN 1 ELSE -1)
       [] e.op = "qr_flags" -> e.out.residue = IsSquareM(x, m) /\ e.out.non_residue = ~IsSquareM(x, m)
       [] e.op = "repr_roundtrip" -> /\ e.out.some /\ e.out.v = x
                                     /\ Trim(IF e.out.le THEN e.out.bytes ELSE Rev(e.out.bytes)) = x
       [] e.op = "from_repr" -> IF Lt(e.ins[1], m) THEN e.out.some /\ e.out.v = e.ins[1] ELSE ~e.out.some
       [] e.op = "from_uniform_bytes" -> e.out = Rem(Trim(e.ins[1]), m)
       [] e.op = "constants" ->
            LET c == e.out
                S == c.s
                t == Quo(Sub(m, One), Pow2(S))            \* m - 1 = 2^S * t
            IN /\ c.num_bits = NumBits(m) /\ c.capacity = NumBits(m) - 1
               /\ c.zero = Zero /\ c.one = One
               /\ MulM(c.two_inv, OfInt(2), m) = One
               /\ Mul(t, Pow2(S)) = Sub(m, One) /\ Bit(t, 0) = 1
               \* the generator is a non-residue; root_of_unity = generator^t has order exactly 2^S
               /\ Euler(c.generator, m) = Sub(m, One)
               /\ c.root_of_unity = PowM(c.generator, t, m)
               /\ PowM(c.root_of_unity, Pow2(S), m) = One
               /\ (S >= 1 => PowM(c.root_of_unity, Pow2(S - 1), m) = Sub(m, One))
               /\ MulM(c.root_of_unity, c.root_of_unity_inv, m) = One
               /\ c.delta = PowM(c.generator, Pow2(S), m)
               /\ c.has_zeta => (c.zeta # One /\ PowMI(c.zeta, 3, m) = One)

QuadOK(e, m) ==
  LET x == QRed(e.ins[1], m)
      y == IF Len(e.ins) >= 2 /\ e.op # "pow" THEN QRed(e.ins[2], m) ELSE QZero
  IN CASE e.op = "embed" -> e.out = x
       [] e.op = "add" -> e.out = QAdd(x, y, m)
       [] e.op = "sub" -> e.out = QSub(x, y, m)
       [] e.op = "mul" -> e.out = QMul(x, y, m)
       [] e.op = "neg" -> e.out = QNeg(x, m)
       [] e.op = "square" -> e.out = QMul(x, x, m)
       [] e.op = "double" -> e.out = QAdd(x, x, m)
       [] e.op = "eq" -> e.out = (x = y)
       [] e.op = "pow" -> e.out = QPowI(x, e.ins[2], m)
       [] e.op = "invert" -> IF x = QZero THEN ~e.out.some ELSE e.out.some /\ QMul(x, e.out.v, m) = QOne
       [] e.op = "sqrt" -> IF QIsSquare(x, m) THEN e.out.some /\ QMul(e.out.v, e.out.v, m) = x ELSE ~e.out.some
       [] e.op = "frobenius" -> e.out = QFrob(x, e.k, m)
       [] e.op = "conjugate" -> e.out = QConj(x, m)
       [] e.op = "norm" -> e.out = QNorm(x, m)
       [] e.op = "mul_by_nonresidue" -> e.out = QMul(TowerOf(e.field).xi, x, m)
       [] e.op = "is_square" -> e.out = QIsSquare(x, m)
       [] e.op = "legendre" -> e.out = (IF x = QZero THEN 0 ELSE IF QIsSquare(x, m) THEN 1 ELSE -1)
       [] e.op = "lex_largest" -> e.out = QLexLargest(x, m)
       \* c1 is compared first, then c0
       [] e.op = "cmp" -> e.out = (IF x = y THEN 0 ELSE IF Lt(x[2], y[2]) \/ (x[2] = y[2] /\ Lt(x[1], y[1])) THEN 0 - 1 ELSE 1)
       \* 2 x size bytes: c0 then c1, little-endian; a checked decoder accepts exactly the canonical pairs
       [] e.op = "bytes_roundtrip" -> e.out.some /\ e.out.v = x /\ <<Trim(e.out.c0), Trim(e.out.c1)>> = x
       [] e.op \in {"from_bytes", "from_repr"} ->
            IF Lt(e.ins[1][1], m) /\ Lt(e.ins[1][2], m) THEN e.out.some /\ e.out.v = e.ins[1] ELSE ~e.out.some
       \* 96 uniform bytes: c0 from the LAST 48 bytes, c1 from the first 48, each little-endian modulo m
       [] e.op = "from_uniform_bytes" ->
            e.out = <<Rem(Trim(SubSeq(e.ins[1], 49, 96)), m), Rem(Trim(SubSeq(e.ins[1], 1, 48)), m)>>
       [] e.op = "constants" ->
            /\ e.out.zero = QZero /\ e.out.one = QOne
            /\ e.out.has_zeta => (e.out.zeta # QOne /\ QMul(QMul(e.out.zeta, e.out.zeta, m), e.out.zeta, m) = QOne)
            /\ e.out.has_two_inv => QMul(e.out.two_inv, <<OfInt(2), Zero>>, m) = QOne

       \* the PrimeField constants of a quadratic extension: a root of unity of order exactly 2^S with its inverse,
       \* delta = generator^(2^S), generator not a square
       [] e.op = "prime_constants" ->
            LET c == e.out IN
            /\ QPowI(c.root_of_unity, Pow2(c.s), m) = QOne
            /\ (c.s >= 1 => QPowI(c.root_of_unity, Pow2(c.s - 1), m) # QOne)
            /\ QMul(c.root_of_unity, c.root_of_unity_inv, m) = QOne
            /\ c.delta = QPowI(c.generator, Pow2(c.s), m)
            /\ ~QIsSquare(c.generator, m)

\* Fp6 and Fp12: every operation against the schoolbook arithmetic of Tower.tla
SextOK(e, T) ==
  LET x == SRed(e.ins[1], T)
      y == IF Len(e.ins) >= 2 /\ e.op \notin {"pow", "mul_by_1", "mul_by_01"} THEN SRed(e.ins[2], T) ELSE SZero
  IN CASE e.op = "embed" -> e.out = x
       [] e.op = "add" -> e.out = SAdd(x, y, T)
       [] e.op = "sub" -> e.out = SSub(x, y, T)
       [] e.op = "mul" -> e.out = SMul(x, y, T)
       [] e.op = "neg" -> e.out = SNeg(x, T)
       [] e.op = "square" -> e.out = SMul(x, x, T)
       [] e.op = "double" -> e.out = SAdd(x, x, T)
       [] e.op = "eq" -> e.out = (x = y)
       [] e.op = "is_zero" -> e.out = (x = SZero)
       [] e.op = "invert" -> IF x = SZero THEN ~e.out.some ELSE e.out.some /\ SMul(x, e.out.v, T) = SOne
       [] e.op = "frobenius" -> e.out = SFrob(x, e.k, T)
       [] e.op = "mul_by_nonresidue" -> e.out = SMulV(x, T)
       [] e.op = "mul_by_1" -> e.out = SMul(x, <<QZero, QRed(e.ins[2], T.m), QZero>>, T)
       [] e.op = "mul_by_01" -> e.out = SMul(x, <<QRed(e.ins[2], T.m), QRed(e.ins[3], T.m), QZero>>, T)
       [] e.op = "constants" -> e.out.zero = SZero /\ e.out.one = SOne

DuoOK(e, T) ==
  LET x == DRed(e.ins[1], T)
      y == IF Len(e.ins) >= 2 /\ e.op \notin {"pow", "mul_by_014", "mul_by_034"} THEN DRed(e.ins[2], T) ELSE DZero
      q(i) == QRed(e.ins[i], T.m)
  IN CASE e.op = "embed" -> e.out = x
       [] e.op = "add" -> e.out = DAdd(x, y, T)
       [] e.op = "sub" -> e.out = DSub(x, y, T)
       [] e.op = "mul" -> e.out = DMul(x, y, T)
       [] e.op = "neg" -> e.out = DNeg(x, T)
       [] e.op = "square" -> e.out = DMul(x, x, T)
       [] e.op = "double" -> e.out = DAdd(x, x, T)
       [] e.op = "eq" -> e.out = (x = y)
       [] e.op = "is_zero" -> e.out = (x = DZero)
       [] e.op = "invert" -> IF x = DZero THEN ~e.out.some ELSE e.out.some /\ DMul(x, e.out.v, T) = DOne
       [] e.op = "pow" -> e.out = DPowI(x, e.ins[2], T)
       [] e.op = "frobenius" -> e.out = DFrob(x, e.k, T)
       [] e.op = "conjugate" -> e.out = DConj(x, T)
       [] e.op = "mul_by_014" -> e.out = DMul(x, Sparse014(q(2), q(3), q(4)), T)
       [] e.op = "mul_by_034" -> e.out = DMul(x, Sparse034(q(2), q(3), q(4)), T)
       \* squaring specialised to the cyclotomic subgroup: on its members it is the square
       [] e.op = "cyclotomic_square" -> InCyclo(x, T) /\ e.out = DMul(x, x, T)
       [] e.op = "constants" -> e.out.zero = DZero /\ e.out.one = DOne

FOK(e) == e.status = "ok" /\ (IF IsQuad(e.field) THEN QuadOK(e, ModulusOf(e.field))
                               ELSE IF IsSext(e.field) THEN SextOK(e, TowerOf(e.field))
                               ELSE IF IsDuo(e.field) THEN DuoOK(e, TowerOf(e.field))
                               ELSE PrimeOK(e, ModulusOf(e.field)))

TInitL == l = 1
THeader == l <= Len(Rec) /\ Ev.ev = "header" /\ l' = l + 1
TF == l <= Len(Rec) /\ Ev.ev = "F" /\ FOK(Ev) /\ l' = l + 1
TraceSpec == TInitL /\ [][THeader \/ TF]_l

TraceAccepted ==
  LET d == TLCGet("stats").diameter IN
  IF d - 1 = Len(Rec) THEN TRUE
  ELSE Print(<<"TRACE-REJECTED first unmatched line", d, "of", Len(Rec)>>, FALSE)
=============================================================================
