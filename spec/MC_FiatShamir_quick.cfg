SPECIFICATION QuickSpec
CONSTANTS
  Mutation = "none"
  Emit = TRUE
INVARIANT Inv
INVARIANT EmitReplay
CHECK_DEADLOCK FALSE
