SPECIFICATION C02Spec
CONSTANTS
  Mutation = "none"
  AdversaryOn = FALSE
  Emit = TRUE
INVARIANT Inv
INVARIANT EmitReplay
CHECK_DEADLOCK FALSE
