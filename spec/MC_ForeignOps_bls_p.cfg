SPECIFICATION Spec
CONSTANTS
  Family = "bls_p"
  Emit = TRUE
INVARIANT EncodingsOK
INVARIANT BigEncodingsOK
INVARIANT EmitReplay
CHECK_DEADLOCK FALSE
