SPECIFICATION Spec
CONSTANTS
  MaxN = 3
  Mutation = "none"
  Emit = TRUE
INVARIANT Inv
INVARIANT EmitReplay
CHECK_DEADLOCK FALSE
