---------------------------- MODULE Native_Trace ----------------------------
(* C04 replay validation.  Each line is one run of a native-gadget          *)
(* operation over the toy field with its inputs and outputs exposed as      *)
(* public inputs; `exposed` are the values the circuit ITSELF ties to the   *)
(* instance column, `status` whether the circuit is satisfiable with them.  *)
(* With a tamper (hook H1) the i-th advice assignment was replaced          *)
(* consistently - the prover lies and computes everything downstream from   *)
(* the lie.  The soundness game: whatever the prover did, if the circuit is *)
(* satisfiable then the exposed outputs are Def of the exposed inputs and   *)
(* the inputs are in the operation's domain.                                *)
EXTENDS NativeOps, IOUtils

Rec == ndJsonDeserialize(IOEnv.TRACE)
VARIABLE l
Ev == Rec[l]
Has(e, f) == f \in DOMAIN e

Ins(e) == SubSeq(e.exposed, 1, e.nin)
Outs(e) == SubSeq(e.exposed, e.nin + 1, Len(e.exposed))

Sound(e) ==
  e.status = "sat" =>
     /\ Len(e.exposed) >= e.nin
     /\ Dom(e.op, e.params, Ins(e))
     /\ Outs(e) = Def(e.op, e.params, Ins(e))

Complete(e) ==
  (~Has(e, "tamper") /\ Dom(e.op, e.params, e.ins)) => (e.status = "sat" /\ Ins(e) = e.ins)

\* a crash of the honest witness generation is tolerated only outside the domain
Total(e) ==
  /\ e.status \in {"sat", "unsat", "synth_err", "panic"}
  /\ (e.status = "panic" /\ ~Has(e, "tamper")) => ~Dom(e.op, e.params, e.ins)

TInitL == l = 1
THeader == l <= Len(Rec) /\ Ev.ev = "header" /\ l' = l + 1
TOp == /\ l <= Len(Rec) /\ Ev.ev = "Op" /\ l' = l + 1
       /\ sc' = sc
       /\ Sound(Ev) /\ Complete(Ev) /\ Total(Ev)
TraceSpec == (TInitL /\ sc = [op |-> "none"]) /\ [][(THeader /\ sc' = sc) \/ TOp]_<<l, sc>>

TraceAccepted ==
  LET d == TLCGet("stats").diameter IN
  IF d - 1 = Len(Rec) THEN TRUE
  ELSE Print(<<"TRACE-REJECTED first unmatched line", d, "of", Len(Rec)>>, FALSE)
=============================================================================
