SPECIFICATION Spec
CONSTANTS
  MaxLen = 8
  Emit = TRUE
INVARIANT Inv
INVARIANT EmitReplay
CHECK_DEADLOCK FALSE
