----------------------------- MODULE RegexWords -----------------------------
(* C19, in-circuit half: the parser circuit (AutomatonChip::parse on the      *)
(* automaton compiled from an expression) run on words under MockProver,     *)
(* with the word and the markers the circuit emits exposed as public inputs. *)
(* CASE holds the expression and the recorded runs.  By the derivative       *)
(* semantics of Regex.tla a word w is accepted with marker sequence m iff    *)
(* the marked word (w, m) is in the marked language; the set of marker       *)
(* sequences of w is computed letter by letter.  Required: a run is          *)
(* satisfiable iff its word is accepted, the exposed markers are a marker    *)
(* sequence of the exposed word, and that sequence is unique.                *)
EXTENDS Regex, SequencesExt

\* all <<marker sequence, residual expression>> pairs after reading w, dropping empty residuals
RunsOf(w) ==
  LET StepW(S, i) == {p \in {<<Append(x[1], m), D(x[2], <<w[i], m>>)>> : x \in S, m \in Markers} : p[2] # Empty}
  IN FoldLeft(StepW, {<<<<>>, Expr>>}, [i \in 1..Len(w) |-> i])
MarkerSeqs(w) == {p[1] : p \in {x \in RunsOf(w) : Nullable(x[2])}}

WordOK(e) ==
  LET n == Len(e.word)
      honest == MarkerSeqs(e.word)
  IN \* completeness and rejection on the honest word
     /\ (honest # {}) <=> (e.status = "sat")
     /\ Cardinality(honest) <= 1
     \* soundness on what the circuit exposes
     /\ e.status = "sat" =>
          /\ Len(e.exposed) = 2 * n
          /\ SubSeq(e.exposed, 1, n) = e.word
          /\ SubSeq(e.exposed, n + 1, 2 * n) \in honest
\* bytes the expression does not mention all behave like the representative (the last of Case.letters)
Canon(b) == IF b \in Letters THEN b ELSE Case.letters[Len(Case.letters)]
TamperOK(e) ==      \* a lying prover: whatever is exposed must still be a word of the language with its markers
  e.status = "sat" =>
     LET n == Len(e.exposed) \div 2
         w == [i \in 1..n |-> Canon(e.exposed[i])]
     IN /\ Len(e.exposed) = 2 * n
        /\ \A i \in 1..n : e.exposed[i] \in 0..255
        /\ SubSeq(e.exposed, n + 1, 2 * n) \in MarkerSeqs(w)

Bad == {i \in 1..Len(Case.runs) : ~(IF Case.runs[i].tampered THEN TamperOK(Case.runs[i]) ELSE WordOK(Case.runs[i]))}
WInit == q = 0 /\ r = Empty
WNext == UNCHANGED vars
WSpec == WInit /\ [][WNext]_vars
WordsOK == Bad = {} \/ PrintT(<<"BAD-RUNS", Bad>>) = FALSE
=============================================================================
