SPECIFICATION Spec
CONSTANTS
  MaxLen = 2
  Variant = "truncate_at_identity"
INVARIANT Bilinear
INVARIANT NonDegenerate
CHECK_DEADLOCK FALSE
