---------------------------- MODULE Builder_Trace ----------------------------
(* C09 trace validation (self-composition).  The harness synthesises each    *)
(* circuit through a recording `Assignment` once with an unknown witness -   *)
(* as key generation does - and once per concrete witness, and logs the      *)
(* structural projection of the run: enabled selectors, fixed cells, table   *)
(* fills, copy constraints, advice cells used, instance cells queried,       *)
(* number of regions (as counts and a digest of the sorted sets).  The       *)
(* projection of a circuit must be a function of the circuit alone.          *)
EXTENDS Naturals, Sequences, FiniteSets, TLC, Json, IOUtils

Rec == ndJsonDeserialize(IOEnv.TRACE)
VARIABLES l, proj
Ev == Rec[l]

Init == l = 1 /\ proj = {}
THeader == l <= Len(Rec) /\ Ev.ev = "header" /\ l' = l + 1 /\ UNCHANGED proj

\* every synthesis succeeds and yields the projection already seen for the circuit
TStructure ==
  /\ l <= Len(Rec) /\ Ev.ev = "Structure" /\ l' = l + 1
  /\ Ev.res = "ok"
  /\ \A p \in proj : p[1] = Ev.circuit => (p[2] = Ev.digest /\ p[3] = Ev.counts)
  /\ proj' = proj \cup {<<Ev.circuit, Ev.digest, Ev.counts>>}

\* keys generated without a witness are the keys under which honest proofs verify
TProve ==
  /\ l <= Len(Rec) /\ Ev.ev = "Prove" /\ l' = l + 1
  /\ Ev.res = "ok" /\ UNCHANGED proj

Next == THeader \/ TStructure \/ TProve
TraceSpec == Init /\ [][Next]_<<l, proj>>
NonInterference == \A p, q \in proj : p[1] = q[1] => p = q

TraceAccepted ==
  LET d == TLCGet("stats").diameter IN
  IF d - 1 = Len(Rec) THEN TRUE
  ELSE Print(<<"TRACE-REJECTED first unmatched line", d, "of", Len(Rec)>>, FALSE)
=============================================================================
