------------------------------ MODULE MC_EccOps ------------------------------
(* Scenario generator for C06 and model-level checks of Curve.tla: for every *)
(* curve, the operand classes {identity, generator, small multiples, P = Q,  *)
(* P = -Q} x scalar classes {0, 1, 2, r-1, r-2, 2^k-1, random} x msm sizes.  *)
(* Points are named by their discrete logarithm k (P = k.G); the invariants  *)
(* check on every scenario that the group law of Curve.tla is consistent     *)
(* with that naming: (a.G) + (b.G) = (a+b).G, s.(a.G) = (s.a mod r).G, and   *)
(* that all points are on the curve.                                        *)
EXTENDS EccOps, Json, Sequences

CONSTANTS CurveName, MaxMsm
C == CurveOf(CurveName)
Dlogs == {0, 1, 2, 3, -1, -2, 5, 1000}
DPairs == {<<a, b>> \in Dlogs \X Dlogs : a \in {0, 1, 3, -1} \/ a = b \/ a = 0 - b}
Rnd(k) == PowMI(OfInt(3), 2000 + k, C.r)
Scalars == {Zero, One, OfInt(2), Sub(C.r, One), Sub(C.r, OfInt(2)), Sub(Pow2(128), One), Pow2(128), Sub(Pow2(NumBits(C.r) - 1), One), Rnd(1), Rnd(2)}
SmallScalars == {Zero, One, OfInt(2), Sub(C.r, One), Rnd(1)}
Sc(op, pts, scalars, params, bounds) == [curve |-> CurveName, op |-> op, pts |-> pts, scalars |-> scalars, params |-> params, bounds |-> bounds]

\* msm instances of size n: base classes incl. repeated, opposite and identity bases
MsmPts(n) == CASE n = 1 -> {<<0>>, <<1>>, <<5>>}
               [] n = 2 -> {<<1, 1>>, <<1, -1>>, <<0, 3>>, <<2, 5>>}
               [] n = 3 -> {<<1, 2, 3>>, <<1, 1, -2>>, <<0, 0, 0>>}
               [] n = 4 -> {<<1, -1, 2, -2>>, <<3, 5, 1000, 1>>}
               [] OTHER -> {[i \in 1..n |-> IF i % 3 = 0 THEN 0 - i ELSE i]}
MsmScal(n) == {[i \in 1..n |-> One], [i \in 1..n |-> Sub(C.r, One)], [i \in 1..n |-> IF i = 1 THEN Rnd(1) ELSE IF i % 2 = 0 THEN Zero ELSE Rnd(i)],
               [i \in 1..n |-> IF i % 2 = 0 THEN Rnd(i) ELSE OfInt(i)]}
Coord(k, which) == LET P == PMulI(C, k, C.g) IN IF which = 1 THEN P.x ELSE P.y

Scenarios ==
  { Sc(o, <<p[1], p[2]>>, <<>>, <<>>, <<>>) : o \in {"add", "add_chain", "is_equal", "assert_equal", "assert_not_equal"}, p \in DPairs }
  \cup { Sc("select", <<p[1], p[2]>>, <<>>, <<b>>, <<>>) : b \in {Zero, One}, p \in {<<0, 1>>, <<2, -2>>, <<3, 3>>} }
  \cup { Sc(o, <<a>>, <<>>, <<>>, <<>>) : o \in {"double", "negate", "coords", "pub"}, a \in Dlogs }
  \cup { Sc("mulc", <<a>>, <<>>, <<s>>, <<>>) : a \in {0, 1, -2, 5}, s \in Scalars \cup {C.r, Add(C.r, One)} }
  \cup UNION { { Sc("msm", ps, ss, <<>>, <<>>) : ps \in MsmPts(n), ss \in MsmScal(n) } : n \in 1..MaxMsm }
  \cup { Sc("msm", <<a>>, <<s>>, <<>>, <<>>) : a \in {0, 1, -1, 3}, s \in Scalars }
  \cup { Sc(o, <<a>>, <<ss[1], ss[2]>>, <<>>, <<>>) : o \in {"msm_negpair", "msm_dup"}, a \in {1, 3, -2},
           ss \in {<<OfInt(5), OfInt(3)>>, <<One, One>>, <<Rnd(1), Rnd(2)>>, <<Sub(C.r, One), OfInt(2)>>} }
  \* bounded scalars: all short with increasing bounds, mixed with full-size ones, bound exactly met
  \cup { Sc("msm_bounded", ps, ss, <<>>, bs) :
           ps \in {<<1, 2>>, <<3, -3>>},
           ss \in {<<OfInt(3), OfInt(1025)>>, <<OfInt(15), Sub(Pow2(12), One)>>},
           bs \in {<<4, 12>>, <<12, 12>>, <<4, 130>>, <<132, 133>>} }
  \cup { Sc("msm_bounded", <<1, 2, 3>>, <<Rnd(1), OfInt(7), Sub(Pow2(64), One)>>, <<>>, <<NumBits(C.r), 3, 64>>),
         Sc("msm_bounded", <<1, 2>>, <<OfInt(16), OfInt(3)>>, <<>>, <<4, 4>>) }     \* (precondition violated: outside the domain)
  \cup (IF CurveName = "jubjub"
        THEN { Sc("msm_bytes", ps, ss, <<32>>, <<>>) :
                 ps \in {<<1, 1>>, <<2, -1>>},
                 ss \in {<<Sub(Pow2(256), One), OfInt(5)>>, <<C.r, Add(C.r, One)>>, <<Rnd(1), Sub(C.r, One)>>} }
             \cup { Sc("msm_bytes", <<3>>, <<s>>, <<nb>>, <<>>) : nb \in {1, 31}, s \in {Zero, OfInt(255), Sub(Pow2(248), One)} }
        ELSE { Sc("msm_le_bits", ps, ss, <<>>, bs) :
                 ps \in {<<3, 1, 2>>, <<1, 1, -1>>},
                 ss \in {<<OfInt(5), OfInt(40000), OfInt(300)>>, <<OfInt(7), Zero, OfInt(511)>>},
                 bs \in {<<3, 16, 9>>, <<16, 16, 16>>, <<3, 17, 300>>} })
  \cup { Sc("from_coords", <<>>, <<Coord(k, 1), Coord(k, 2)>>, <<>>, <<>>) : k \in {1, 2, -1, 5, 1000} }
  \* off-curve coordinates, the identity's coordinates, (x, -y)
  \cup { Sc("from_coords", <<>>, <<Coord(1, 1), AddM(Coord(1, 2), One, C.p)>>, <<>>, <<>>),
         Sc("from_coords", <<>>, <<Coord(0, 1), Coord(0, 2)>>, <<>>, <<>>),
         Sc("from_coords", <<>>, <<Coord(2, 1), NegM(Coord(2, 2), C.p)>>, <<>>, <<>>),
         Sc("from_coords", <<>>, <<Zero, Zero>>, <<>>, <<>>) }

\* an on-curve point outside the prime-order subgroup (BLS12-381 G1 has a large cofactor; p = 3 mod 4)
SqrtM(a, p) == PowM(a, Quo(Add(p, One), OfInt(4)), p)
Rhs(x) == AddM(MulM(MulM(x, x, C.p), x, C.p), C.b, C.p)
OffSubgroupXs == {OfInt(k) : k \in {x \in 1..40 : LET X == OfInt(x) IN IsSquareM(Rhs(X), C.p) /\ ~InSubgroup(C, Pt(X, SqrtM(Rhs(X), C.p)))}}
MoreScenarios ==
  IF CurveName = "bls12_381_g1"
  THEN { Sc("from_coords", <<>>, <<X, SqrtM(Rhs(X), C.p)>>, <<>>, <<>>) : X \in OffSubgroupXs }
       \cup { Sc("in_subgroup", <<a>>, <<>>, <<>>, <<>>) : a \in {1, 2, -1, 1000} }
  ELSE IF CurveName = "jubjub"
  \* cofactor 8: the point of order 2, and its sum with the generator (order 2r)
  THEN LET T2 == Pt(Zero, Sub(C.p, One))  Q == PAdd(C, T2, C.g) IN
       { Sc("from_coords", <<>>, <<T2.x, T2.y>>, <<>>, <<>>), Sc("from_coords", <<>>, <<Q.x, Q.y>>, <<>>, <<>>) }
  ELSE {}

VARIABLE sc
Init == sc \in Scenarios \cup MoreScenarios
Next == UNCHANGED sc
Spec == Init /\ [][Next]_sc

Pts == [i \in 1..Len(sc.pts) |-> PMulI(C, sc.pts[i], C.g)]
DlogPoint(k) == PMulI(C, k, C.g)
GroupLawConsistent ==
  /\ \A i \in 1..Len(Pts) : OnCurve(C, Pts[i])
  /\ Len(sc.pts) = 2 =>
       /\ PAdd(C, Pts[1], Pts[2]) = DlogPoint(sc.pts[1] + sc.pts[2])
       /\ PAdd(C, Pts[1], Pts[2]) = PAdd(C, Pts[2], Pts[1])
       /\ PSub(C, Pts[1], Pts[2]) = DlogPoint(sc.pts[1] - sc.pts[2])
  /\ Len(sc.pts) = 1 =>
       /\ PDbl(C, Pts[1]) = DlogPoint(2 * sc.pts[1])
       /\ Neg(C, Pts[1]) = DlogPoint(0 - sc.pts[1])
       /\ PAdd(C, Pts[1], Id(C)) = Pts[1]
  /\ (sc.op = "mulc") =>
       \* s.(a.G) = ((s mod r) . a mod r).G, with a reduced as an integer modulo r
       LET a == IF sc.pts[1] >= 0 THEN OfInt(sc.pts[1]) ELSE Sub(C.r, OfInt(0 - sc.pts[1])) IN
       PMul(C, sc.params[1], Pts[1]) = PMul(C, MulM(Rem(sc.params[1], C.r), a, C.r), C.g)
HonIn == [P |-> Pts, S |-> sc.scalars, C |-> sc.scalars]
InDom == EDom(CurveName, sc.op, sc.params, sc.bounds, HonIn) /\ EPre(CurveName, sc.op, sc.params, sc.bounds, HonIn)
EmitReplay == PrintT("REPLAY " \o ToJson([curve |-> sc.curve, op |-> sc.op, pts |-> sc.pts, scalars |-> sc.scalars,
                                            params |-> sc.params, bounds |-> sc.bounds, dom |-> InDom]))
=============================================================================
