------------------------------- MODULE EccOps -------------------------------
(***************************************************************************)
(* Meaning of the in-circuit elliptic-curve instructions (C06) in terms of  *)
(* the group law of Curve.tla: domain and result of every operation on the  *)
(* embedded Jubjub curve and on the emulated secp256k1 and BLS12-381 G1.    *)
(* Inputs are typed values: points of the curve's prime-order subgroup,     *)
(* scalars (integers; multiplication is by the integer, i.e. modulo the     *)
(* group order), coordinates (elements of the base field), bits, bytes.     *)
(* The identity of a Weierstrass curve has the coordinates (0, 0) as far as   *)
(* coordinate extraction is concerned (the representation the chips use).   *)
(*   x = [P |-> seq of points, S |-> seq of integers, C |-> seq of          *)
(*        coordinates]                                                     *)
(***************************************************************************)
EXTENDS PublicInputs

PointTy(curve) == CASE curve = "jubjub" -> "jub_point" [] curve = "secp256k1" -> "secp_point" [] curve = "bls12_381_g1" -> "bls_point"
ScalarTy(curve) == CASE curve = "jubjub" -> "jub_scalar" [] curve = "secp256k1" -> "secp_n" [] curve = "bls12_381_g1" -> "native"
CoordTy(curve) == CASE curve = "jubjub" -> "native" [] curve = "secp256k1" -> "secp_p" [] curve = "bls12_381_g1" -> "bls_p"
EncP(curve, P) == Encode(PointTy(curve), 0, P)
EncC(curve, v) == Encode(CoordTy(curve), 0, v)

EDom(curve, op, pr, bounds, x) ==
  LET c == CurveOf(curve) IN
  CASE op = "assert_equal" -> x.P[1] = x.P[2]
    [] op = "assert_not_equal" -> x.P[1] # x.P[2]
    \* (a pair of coordinates never names the point at infinity of a Weierstrass curve; the Edwards identity (0, 1) is an
    \* ordinary point of the subgroup)
    [] op = "from_coords" -> LET Q == Pt(x.C[1], x.C[2]) IN OnCurve(c, Q) /\ InSubgroup(c, Q)
    [] OTHER -> TRUE

\* preconditions that are the caller's responsibility (not enforced by constraints): outside them no claim is made
EPre(curve, op, pr, bounds, x) ==
  CASE op = "msm_bounded" -> \A i \in 1..Len(x.S) : NumBits(x.S[i]) <= bounds[i]
    [] OTHER -> TRUE

\* the exposed outputs as raw native elements; for "select" a set of allowed vectors
EOuts(curve, op, pr, x) ==
  LET c == CurveOf(curve)
      E(P) == EncP(curve, P)
  IN
  CASE op = "add" -> {E(PAdd(c, x.P[1], x.P[2]))}
    [] op = "double" -> {E(PDbl(c, x.P[1]))}
    [] op = "negate" -> {E(Neg(c, x.P[1]))}
    [] op = "add_chain" -> {E(x.P[1])}
    [] op = "mulc" -> {E(PMul(c, Rem(pr[1], c.r), x.P[1]))}
    [] op \in {"msm", "msm_bounded", "msm_le_bits", "msm_bytes"} -> {E(Msm(c, x.S, x.P))}
    [] op = "msm_negpair" -> {E(Msm(c, x.S, <<x.P[1], Neg(c, x.P[1])>>))}     \* bases P and its in-circuit negation
    [] op = "msm_dup" -> {E(Msm(c, x.S, <<x.P[1], x.P[1]>>))}                \* the same assigned point twice
    [] op = "is_equal" -> {<<BoolN(x.P[1] = x.P[2])>>}
    [] op \in {"assert_equal", "assert_not_equal", "pub", "in_subgroup"} -> {<<>>}
    [] op = "select" -> {E(x.P[1]), E(x.P[2])}
    [] op = "coords" -> {EncC(curve, x.P[1].x) \o EncC(curve, x.P[1].y)}
    [] op = "from_coords" -> {E(Pt(x.C[1], x.C[2]))}
=============================================================================
