SPECIFICATION Spec
CONSTANTS
  MaxOps = 4
INVARIANT EmitReplay
CHECK_DEADLOCK FALSE
