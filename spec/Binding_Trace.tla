---------------------------- MODULE Binding_Trace ----------------------------
(***************************************************************************)
(* C03 trace validation.  A run is                                         *)
(*   reset(layout, nproofs, committed, plain)  Tamper*  [BitFlips]  EndRun *)
(* Every Tamper event carries three facts the harness established by       *)
(* direct comparison (proof_same, stmt_same, key_same) and the verifier's  *)
(* verdict.  The expected verdict is the one FiatShamir derives (Binding   *)
(* and Completeness, model-checked in MC_Binding):                         *)
(*     accept  <=>  same proof bytes /\ same statement /\ same key & hash  *)
(* A panic is neither.  EndRun is enabled only if the plan derived HERE    *)
(* from the recorded layout was carried out completely (coverage).         *)
(***************************************************************************)
EXTENDS Naturals, Sequences, FiniteSets, TLC, Json, IOUtils

Rec == ndJsonDeserialize(IOEnv.TRACE)

VARIABLES l, run, seen, bits, state
vars == <<l, run, seen, bits, state>>

Ev == Rec[l]
Is(e) == l <= Len(Rec) /\ Rec[l].ev = e /\ l' = l + 1

Expected(e) == IF e.proof_same /\ e.stmt_same /\ e.key_same THEN "ok" ELSE "err"

\* The plan the specification demands for a layout.
\* ("torsion": the same point plus a point of cofactor order - other bytes, which only a decoder that checks membership of
\* the prime-order group refuses: the pairing equation cannot tell it from the original)
ElemMuts(kind) == IF kind = "point" THEN {"other", "invalid", "signflip", "torsion"}
                  ELSE {"other", "noncanonical"}
Plan(r) ==
  { <<"identity">> }
  \cup { <<"elem", i, m>> : i \in 1..Len(r.layout), m \in {"other"} }
  \cup UNION { { <<"elem", i, m>> : m \in ElemMuts(r.layout[i].kind) } : i \in 1..Len(r.layout) }
  \cup { <<"trunc", a, i>> : a \in {"boundary", "mid"}, i \in 1..Len(r.layout) }
  \cup { <<"append", n>> : n \in {1, 32, 48} }
  \cup UNION { UNION { { <<"inst", "append_zero", p, c>> } \cup
                       (IF r.plain[p][c] >= 1
                        THEN { <<"inst", "change", p, c>>, <<"inst", "drop_last", p, c>> } ELSE {}) \cup
                       (IF r.plain[p][c] >= 2 THEN { <<"inst", "swap", p, c>> } ELSE {}) \cup
                       (IF r.plain[p][c] >= 1 /\ c < Len(r.plain[p])
                        THEN { <<"inst", "move", p, c>> } ELSE {})
                       : c \in 1..Len(r.plain[p]) } : p \in 1..r.nproofs }
  \cup { <<"cinst", m, p, c>> : m \in {"other", "identity"}, p \in 1..r.nproofs, c \in 1..r.committed }
  \cup { <<"key", m>> : m \in {"other_circuit", "other_k", "other_hash"} }

KeyOf(w) ==
  CASE w.t = "identity" -> <<"identity">>
    [] w.t = "elem"     -> <<"elem", w.i, w.m>>
    [] w.t = "trunc"    -> <<"trunc", w.at, w.i>>
    [] w.t = "append"   -> <<"append", w.n>>
    [] w.t = "inst"     -> <<"inst", w.m, w.p, w.c>>
    [] w.t = "cinst"    -> <<"cinst", w.m, w.p, w.c>>
    [] w.t = "key"      -> <<"key", w.m>>

\* runs through the standard library's entry points (verify, batch_verify on batches of one and two): byte-level plan
StdEntries == {"verify", "batch1", "batch2_first", "batch2_second"}
StdPlan == { <<"s", e, "identity", 0>> : e \in StdEntries } \cup { <<"s", e, "pi", 0>> : e \in StdEntries }
           \cup { <<"s", e, "append", n>> : e \in StdEntries, n \in {1, 32, 48} }
           \cup { <<"s", e, "trunc", n>> : e \in StdEntries, n \in {1, 32} }
           \cup { <<"s", e, "flip", n>> : e \in StdEntries, n \in 1..8 }
IsStd(r) == "entry" \in DOMAIN r

Init == l = 1 /\ run = [nproofs |-> 0] /\ seen = {} /\ bits = 0 /\ state = "idle"

THeader == Is("header") /\ UNCHANGED <<run, seen, bits, state>>

TReset ==
  /\ Is("reset") /\ state = "idle"
  /\ run' = Ev /\ seen' = {} /\ bits' = 0 /\ state' = "run"

\* C03: the verdict on a tampered input is the model's verdict.
TTamper ==
  /\ Is("Tamper") /\ state = "run"
  /\ Ev.res = Expected(Ev)
  \* the identity control really is the identity
  \* (an edit may happen to change nothing - swapping two equal instance vectors, replacing an identity commitment by the
  \* identity: its three facts say so and the expected verdict is then acceptance; such edits are counted by the check)
  /\ (Ev.what.t = "identity") => (Ev.proof_same /\ Ev.stmt_same /\ Ev.key_same)
  /\ seen' = seen \cup {KeyOf(Ev.what)}
  /\ UNCHANGED <<run, bits, state>>

TSTamper ==
  /\ Is("STamper") /\ state = "run" /\ IsStd(run)
  /\ Ev.res = Expected(Ev)
  /\ (Ev.what.t = "identity") => (Ev.proof_same /\ Ev.stmt_same /\ Ev.key_same)
  /\ seen' = seen \cup {<<"s", Ev.what.entry, Ev.what.t, Ev.what.n>>}
  /\ UNCHANGED <<run, bits, state>>

\* thorough tier: every single-bit flip of the proof was rejected
TBitFlips ==
  /\ Is("BitFlips") /\ state = "run"
  /\ Ev.n = 8 * run.prooflen
  /\ Ev.not_rejected = <<>>
  /\ bits' = Ev.n
  /\ UNCHANGED <<run, seen, state>>

TEndRun ==
  /\ Is("EndRun") /\ state = "run"
  /\ (IF IsStd(run) THEN StdPlan ELSE Plan(run)) \subseteq seen      \* coverage of the plan
  /\ run.bits => bits = 8 * run.prooflen
  /\ state' = "idle"
  /\ UNCHANGED <<run, seen, bits>>

Next == THeader \/ TReset \/ TTamper \/ TSTamper \/ TBitFlips \/ TEndRun
TraceSpec == Init /\ [][Next]_vars

TraceAccepted ==
  LET d == TLCGet("stats").diameter IN
  IF d - 1 = Len(Rec) THEN TRUE
  ELSE Print(<<"TRACE-REJECTED first unmatched line", d, "of", Len(Rec)>>, FALSE)
=============================================================================
