----------------------------- MODULE Hash_Trace -----------------------------
(* C07 replay validation.  `Op` lines are runs of a hash gadget with message  *)
(* and digest exposed as public inputs (`exposed` = what the circuit itself    *)
(* binds), honest or with one advice assignment replaced consistently (H1).    *)
(* For SHA-256 (fixed and variable length), SHA-512 and Poseidon the digest   *)
(* is recomputed by TLC from the definitions of Hashes.tla on the message the *)
(* circuit exposes; for SHA3-256, Keccak-256 and BLAKE2b the digest of an      *)
(* independent implementation (`reference`) stands in for the definition and   *)
(* is only usable when the exposed message is the scenario's.  The variable-   *)
(* length gadget hashes a vector that cannot be exposed: its message is the    *)
(* scenario's, the filler bytes around it are adversarial, and faults start    *)
(* after the vector's own assignments.  `PoseidonCpu` lines check the          *)
(* off-circuit hash and the transcript sponge against the same definitions.    *)
EXTENDS Hashes, Json, IOUtils, Sequences

Rec == ndJsonDeserialize(IOEnv.TRACE)
VARIABLES l, pc            \* pc: the Poseidon constants the code publishes (set by the PoseidonConstants line)
Ev == Rec[l]
Has(e, f) == f \in DOMAIN e

\* 0x73eda753299d7d483339d80809a1d80553bda402fffe5bfeffffffff00000001
BlsR == <<1, 0, 0, 0, 255, 255, 255, 255, 254, 91, 254, 255, 2, 164, 189, 83, 5, 216, 161, 9, 8, 216, 57, 51, 72, 125, 157, 41, 83, 167, 237, 115>>

DigestLen(alg) == CASE alg = "ripemd160" -> 20 [] alg \in {"sha256", "sha256_varlen", "sha3_256", "keccak_256", "blake2b_256"} -> 32
                    [] alg \in {"sha512", "blake2b_512"} -> 64 [] alg \in {"poseidon", "poseidon_varlen"} -> 1
Defined(alg) == alg \in {"sha256", "sha256_varlen", "sha512", "ripemd160", "poseidon", "poseidon_varlen"}
IsPos(alg) == alg \in {"poseidon", "poseidon_varlen"}
ByteVals(groups) == [i \in 1..Len(groups) |-> ToInt(groups[i])]
IsByteSeq(groups) == \A i \in 1..Len(groups) : Len(groups[i]) <= 1

Digest(e, msg) ==
  CASE e.alg \in {"sha256", "sha256_varlen"} -> Sha256(msg)
    [] e.alg = "sha512" -> Sha512(msg)
    [] e.alg = "ripemd160" -> Ripemd160(msg)
    \* (the variable-length gadget hashes the elements actually supplied, whatever fills the rest of the vector)
    [] IsPos(e.alg) -> <<PoseidonHash(msg, pc.mds, pc.rc, BlsR)>>
    [] OTHER -> e.reference

OpOK(e) ==
  LET nin == e.nin
      dl == DigestLen(e.alg)
      shaped == Len(e.exposed) = nin + dl
      ins == SubSeq(e.exposed, 1, nin)
      outs == SubSeq(e.exposed, nin + 1, Len(e.exposed))
      honestMsg == IF IsPos(e.alg) THEN e.inputs ELSE e.msg
      typed == IF IsPos(e.alg) THEN \A i \in 1..Len(e.exposed) : Lt(e.exposed[i], BlsR) ELSE IsByteSeq(e.exposed)
      exposedMsg == IF e.alg = "sha256_varlen" THEN e.msg
                    ELSE IF e.alg = "poseidon_varlen" THEN e.inputs
                    ELSE IF e.alg = "poseidon" THEN ins ELSE ByteVals(ins)
      outVals == IF IsPos(e.alg) THEN outs ELSE ByteVals(outs)
      judgeable == Defined(e.alg) \/ exposedMsg = honestMsg
  IN /\ e.status \in {"sat", "unsat", "synth_err", "panic"}
     \* soundness
     /\ (e.status = "sat" /\ shaped /\ typed /\ judgeable) => outVals = Digest(e, exposedMsg)
     \* completeness
     /\ ~Has(e, "tamper") => (e.status = "sat" /\ shaped /\ typed /\ exposedMsg = honestMsg /\ outVals = Digest(e, honestMsg))

CpuOK(e) ==
  /\ e.hash = PoseidonHash(e.inputs, pc.mds, pc.rc, BlsR)
  /\ e.transcript_squeeze = PoseidonTranscriptSqueeze(e.inputs, pc.mds, pc.rc, BlsR)
ConstsOK(e) ==
  /\ Len(e.mds) = PWidth /\ \A i \in 1..PWidth : Len(e.mds[i]) = PWidth
  /\ Len(e.rc) = PFull + PPartial /\ \A i \in 1..Len(e.rc) : Len(e.rc[i]) = PWidth
  \* the MDS matrix is invertible (non-zero determinant) and has no zero entry
  /\ \A i \in 1..PWidth, j \in 1..PWidth : e.mds[i][j] # Zero /\ Lt(e.mds[i][j], BlsR)
  /\ LET a == e.mds  m == BlsR
         M2(p, q, r, s) == SubM(MulM(p, s, m), MulM(q, r, m), m)
         det == AddM(SubM(MulM(a[1][1], M2(a[2][2], a[2][3], a[3][2], a[3][3]), m),
                          MulM(a[1][2], M2(a[2][1], a[2][3], a[3][1], a[3][3]), m), m),
                     MulM(a[1][3], M2(a[2][1], a[2][2], a[3][1], a[3][2]), m), m)
     IN det # Zero

\* a sponge session (off-circuit PoseidonState or in-circuit PoseidonChip): the squeeze outputs must be the state machine's
SpongeOK(e) ==
  /\ e.status \in {"ok", "sat"}
  /\ e.outs = SpRun(e.len, e.ops, pc.mds, pc.rc, BlsR)
TSponge == l <= Len(Rec) /\ Ev.ev = "Sponge" /\ SpongeOK(Ev) /\ l' = l + 1 /\ UNCHANGED pc

TInit == l = 1 /\ pc = [mds |-> <<>>, rc |-> <<>>]
THeader == l <= Len(Rec) /\ Ev.ev = "header" /\ Trim(Ev.native) = BlsR /\ l' = l + 1 /\ UNCHANGED pc
TConsts == l <= Len(Rec) /\ Ev.ev = "PoseidonConstants" /\ ConstsOK(Ev) /\ pc' = [mds |-> Ev.mds, rc |-> Ev.rc] /\ l' = l + 1
TOp == l <= Len(Rec) /\ Ev.ev = "Op" /\ OpOK(Ev) /\ l' = l + 1 /\ UNCHANGED pc
TCpu == l <= Len(Rec) /\ Ev.ev = "PoseidonCpu" /\ CpuOK(Ev) /\ l' = l + 1 /\ UNCHANGED pc
TraceSpec == TInit /\ [][THeader \/ TConsts \/ TOp \/ TCpu \/ TSponge]_<<l, pc>>

TraceAccepted ==
  LET d == TLCGet("stats").diameter IN
  IF d - 1 = Len(Rec) THEN TRUE
  ELSE Print(<<"TRACE-REJECTED first unmatched line", d, "of", Len(Rec)>>, FALSE)
=============================================================================
