----------------------------- MODULE Lifecycle -----------------------------
(***************************************************************************)
(* The life cycle of parameters and keys a user of the proof system sees   *)
(* (C17).  An artefact is identified by WHAT it was derived from:          *)
(*   parameters : <<"params", secret, k>>                                  *)
(*   keys       : <<"vk" | "pk", circuit, k, secret>>                      *)
(* and never by how (number of worker threads, repetition, whether the     *)
(* parameters were set up for k directly or downsized to k, how often the  *)
(* object went through serialization).  The implementation assigns every   *)
(* artefact its bytes; `bytesOf` records the bytes seen for each identity. *)
(* Determinism and round-trip fidelity are the statement that `bytesOf`    *)
(* stays a FUNCTION: an identity never gets a second, different value.     *)
(***************************************************************************)
EXTENDS Naturals, Sequences, FiniteSets, TLC

CONSTANTS Secrets, Ks, Circuits, Threads, Formats, Mutation

VARIABLES bytesOf,   \* identity -> bytes (a partial function, as a set of pairs)
          objs,      \* live objects: [id, via] (via: how the object was obtained)
          ok
vars == <<bytesOf, objs, ok>>

\* the implementation under the model: bytes as a function of the identity only;
\* the mutations make it depend on something it must not depend on
Impl(id, via) ==
  CASE Mutation = "threads_matter" /\ id[1] \in {"vk", "pk"} /\ via[1] = "keygen" -> <<id, via[2] > 1>>
    [] Mutation = "downsize_differs" /\ via[1] = "downsize" -> <<id, "d">>
    [] Mutation = "lossy_roundtrip" /\ via[1] = "read" /\ via[2] = "P" -> <<id, "lossy">>
    [] OTHER -> id

Compatible(wf, rf) == (wf = "P") = (rf = "P")      \* Processed only with Processed; raw forms with each other

Record(id, via) ==
  LET b == Impl(id, via) IN
  /\ objs' = objs \cup {[id |-> id, via |-> via]}
  /\ IF \E p \in bytesOf : p[1] = id
     THEN /\ ok' = (ok /\ \A p \in bytesOf : p[1] = id => p[2] = b)
          /\ bytesOf' = bytesOf \cup {<<id, b>>}
     ELSE ok' = ok /\ bytesOf' = bytesOf \cup {<<id, b>>}

Setup(s, k) == Record(<<"params", s, k>>, <<"setup">>)
Downsize(s, k, k2) ==
  /\ k2 <= k /\ \E o \in objs : o.id = <<"params", s, k>>
  /\ Record(<<"params", s, k2>>, <<"downsize">>)
Keygen(kind, c, s, k, t) ==
  /\ \E o \in objs : o.id = <<"params", s, k>>
  /\ Record(<<kind, c, k, s>>, <<"keygen", t>>)
RoundTrip(o, wf, rf) ==
  /\ o \in objs /\ Compatible(wf, rf)
  /\ Record(o.id, <<"read", wf, rf>>)

Init == bytesOf = {} /\ objs = {} /\ ok = TRUE
Next ==
  \/ \E s \in Secrets, k \in Ks : Setup(s, k)
  \/ \E s \in Secrets, k \in Ks, k2 \in Ks : Downsize(s, k, k2)
  \/ \E kind \in {"vk", "pk"}, c \in Circuits, s \in Secrets, k \in Ks, t \in Threads : Keygen(kind, c, s, k, t)
  \/ \E o \in objs, wf \in Formats, rf \in Formats : RoundTrip(o, wf, rf)
Spec == Init /\ [][Next]_vars

\* C17
Deterministic == ok
Functional == \A p, q \in bytesOf : p[1] = q[1] => p[2] = q[2]
\* a proof made with a proving key verifies under a verifying key iff they have
\* the same derivation, whatever their histories
Verifies(pk, vk) == pk.id[2] = vk.id[2] /\ pk.id[3] = vk.id[3] /\ pk.id[4] = vk.id[4]
Inv == Deterministic /\ Functional
Bound == Cardinality(objs) <= 4
=============================================================================
