------------------------------ MODULE Agg_Trace ------------------------------
(* C20 replay validation (light aggregator, public API).  An `Agg` line holds *)
(* the honest aggregation of NB valid inner proofs: the transcript operations *)
(* of aggregate_proofs (prover) and of verify (verifier), recorded by a        *)
(* wrapping transcript.  Required: the inner proofs are valid, aggregation     *)
(* succeeds, verification accepts and consumes the whole proof; the verifier   *)
(* reads exactly what the prover wrote, in the same order and with the same    *)
(* challenges drawn at the same places (so every element is bound by a later   *)
(* challenge - the last operation is a squeeze); the outer layout is           *)
(*   n, n points, n scalars | m, m points, 2 points | inner PLONK proof |      *)
(*   IPA: 2.2^k + 2 common points, r, k x (L, R, u), s | r.                    *)
(* `AggTamper` lines: the aggregated proof with one element corrupted (every   *)
(* element of the plan), truncated or extended must not be accepted;           *)
(* `AggInstance`: nor with an inner public input edited; `AggRefuse`: invalid  *)
(* inner proofs never lead to an accepted aggregate; `AggPlanEnd`: the plan    *)
(* covered the elements it promised.                                          *)
EXTENDS Integers, Sequences, FiniteSets, Json, IOUtils, TLC

Rec == ndJsonDeserialize(IOEnv.TRACE)
VARIABLES l, nel, covered
Ev == Rec[l]
Has(e, f) == f \in DOMAIN e

IsRead(e, k) == e.op = "read" /\ e.kind = k
RECURSIVE RunLen(_, _, _)
RunLen(V, i, k) == IF i <= Len(V) /\ IsRead(V[i], k) THEN 1 + RunLen(V, i + 1, k) ELSE 0     \* reads of kind k from position i
RECURSIVE P2(_)
P2(n) == IF n = 0 THEN 1 ELSE 2 * P2(n - 1)

\* the IPA section and the final challenge, as a suffix of the verifier's operations
IpaTail(V, k) ==
  LET K == P2(k)
      len == (2 * K + 2) + 1 + 3 * k + 1 + 1
      st == Len(V) - len
  IN /\ st >= 0
     /\ \A i \in 1..(2 * K + 2) : V[st + i].op = "common" /\ V[st + i].kind = "point"
     /\ V[st + 2 * K + 3].op = "squeeze"
     /\ \A j \in 0..(k - 1) : /\ IsRead(V[st + 2 * K + 4 + 3 * j], "point")
                              /\ IsRead(V[st + 2 * K + 5 + 3 * j], "point")
                              /\ V[st + 2 * K + 6 + 3 * j].op = "squeeze"
     /\ IsRead(V[Len(V) - 1], "scalar")
     /\ V[Len(V)].op = "squeeze"
     \* nothing before it is a "common" (the inner PLONK verifier absorbs only what it reads and its instances)
     /\ (st >= 1 => V[st].op # "common" \/ V[st].kind # "point")

Shape(V) ==
  /\ Len(V) >= 8 /\ IsRead(V[1], "u32")
  /\ LET n == RunLen(V, 2, "point") IN
     /\ RunLen(V, 2 + n, "scalar") = n
     /\ IsRead(V[2 + 2 * n], "u32")
     /\ RunLen(V, 3 + 2 * n, "point") >= 2
  /\ \E k \in 0..12 : IpaTail(V, k)

Agreement(Pr, V) ==       \* the verifier additionally draws the final batching challenge
  /\ Len(V) = Len(Pr) + 1 /\ V[Len(V)].op = "squeeze"
  /\ \A i \in 1..Len(Pr) :
       /\ Pr[i].kind = V[i].kind /\ Pr[i].id = V[i].id
       /\ (Pr[i].op = "write" /\ V[i].op = "read" /\ Pr[i].len = V[i].len) \/ (Pr[i].op = V[i].op /\ Pr[i].op \in {"common", "squeeze"})

NReads(V) == Cardinality({i \in 1..Len(V) : V[i].op = "read"})

\* the vectors of the inner-product argument (accumulator bases + fixed bases, `ipa.len` of them) are padded to the next
\* power of two: exactly ceil(log2 len) rounds, none more when the length already is a power of two
CeilLog2(n) == CHOOSE k \in 0..20 : P2(k) >= n /\ (k = 0 \/ P2(k - 1) < n)
AggOK(e) ==
  /\ e.inner.valid = TRUE
  /\ e.aggregate = "ok" /\ e.verdict = "ok" /\ e.trailing = FALSE
  /\ Shape(e.verifier)
  /\ (Has(e, "ipa") /\ Has(e.ipa, "len")) => IpaTail(e.verifier, CeilLog2(e.ipa.len))
  /\ Agreement(e.prover, e.verifier)

Rejected(v) == v # "ok"
TInit == l = 1 /\ nel = 0 /\ covered = {}
THeader == l <= Len(Rec) /\ Ev.ev = "header" /\ l' = l + 1 /\ UNCHANGED <<nel, covered>>
TAgg == /\ l <= Len(Rec) /\ Ev.ev = "Agg" /\ AggOK(Ev)
        /\ nel' = NReads(Ev.verifier) /\ covered' = {} /\ l' = l + 1
TTamper == /\ l <= Len(Rec) /\ Ev.ev = "AggTamper"
           /\ Rejected(Ev.verdict) \/ (Ev.how = "append_byte" /\ Ev.trailing = TRUE)
           /\ covered' = covered \cup {Ev.el} /\ l' = l + 1 /\ UNCHANGED nel
TInstance == l <= Len(Rec) /\ Ev.ev = "AggInstance" /\ Rejected(Ev.verdict) /\ l' = l + 1 /\ UNCHANGED <<nel, covered>>
TRefuse == /\ l <= Len(Rec) /\ Ev.ev = "AggRefuse"
           /\ ~(Ev.verdict = "ok" /\ Ev.then_verify = "ok")
           /\ l' = l + 1 /\ UNCHANGED <<nel, covered>>
TPlanEnd == /\ l <= Len(Rec) /\ Ev.ev = "AggPlanEnd"
            /\ Ev.n_elements = nel
            /\ \A i \in 1..nel : (i <= 12 \/ i + 23 >= nel \/ (i - 1) % Ev.stride = Ev.offset) => i \in covered
            /\ 0 \in covered
            /\ l' = l + 1 /\ UNCHANGED <<nel, covered>>
\* ---- verifier gadget (foreign-curve back-end) --------------------------------
\* `Gadget`: the verifier circuit run on a valid inner proof with instance = encode(vk identity, OFF-circuit
\* accumulator): satisfied, the accumulator the circuit itself exposes is the off-circuit one, and that
\* accumulator passes the pairing check.  `GadgetEdit`: any other claimed instance is unsatisfiable.
\* `GadgetCorrupt`: for a corrupted proof or public input that the off-circuit verifier still parses, the
\* in-circuit verifier derives the same accumulator, and it fails the pairing check.
TGadget == /\ l <= Len(Rec) /\ Ev.ev = "Gadget"
           /\ Ev.status = "sat" /\ Ev.same = TRUE /\ Ev.acc_check = TRUE /\ Ev.n_pi > 0
           /\ l' = l + 1 /\ UNCHANGED <<nel, covered>>
TGadgetEdit == l <= Len(Rec) /\ Ev.ev = "GadgetEdit" /\ Ev.status = "unsat" /\ l' = l + 1 /\ UNCHANGED <<nel, covered>>
TGadgetCorrupt == /\ l <= Len(Rec) /\ Ev.ev = "GadgetCorrupt"
                  /\ Ev.off_parses => (Ev.in_circuit = "ok" /\ Ev.same = TRUE /\ Ev.acc_check = FALSE)
                  /\ l' = l + 1 /\ UNCHANGED <<nel, covered>>
TraceSpec == TInit /\ [][THeader \/ TAgg \/ TTamper \/ TInstance \/ TRefuse \/ TPlanEnd
                          \/ TGadget \/ TGadgetEdit \/ TGadgetCorrupt]_<<l, nel, covered>>

TraceAccepted ==
  LET d == TLCGet("stats").diameter IN
  IF d - 1 = Len(Rec) THEN TRUE
  ELSE Print(<<"TRACE-REJECTED first unmatched line", d, "of", Len(Rec)>>, FALSE)
=============================================================================
