----------------------------- MODULE Zkir_Trace -----------------------------
(* C18 replay validation.  One line per program + witness generated from    *)
(* Zkir.tla and executed by the real loader, the off-circuit evaluator and  *)
(* the compiled circuit (MockProver, with the values the circuit itself     *)
(* ties to the instance column extracted from its copy constraints).        *)
EXTENDS Naturals, Sequences, TLC, Json, IOUtils

Rec == ndJsonDeserialize(IOEnv.TRACE)
VARIABLE l
Ev == Rec[l]

Has(e, f) == f \in DOMAIN e

\* the loader answers with a value and refuses exactly the ill-formed programs
LoadOK(e) ==
  /\ e.load \in {"ok", "err"}
  /\ (e.expect = "load_error") <=> (e.load = "err")

\* a loaded program survives its JSON and binary round trips unchanged
RoundTrips(e) == e.load = "ok" => (e.rt_json = "same" /\ e.rt_bin = "same")

\* both evaluators answer with values, never a panic
Total(e) == e.load = "ok" => (e.off \in {"ok", "err"} /\ e.circ \in {"sat", "unsat", "synth_err"})

\* off-circuit evaluation and the compiled circuit agree
Agree(e) ==
  e.load = "ok" =>
    /\ e.off = "ok" => /\ e.circ = "sat"
                       /\ e.self_eq_enc = TRUE      \* the circuit binds exactly encode(P)
                       /\ e.enc_sat = TRUE
                       /\ e.edits_rejected = TRUE   \* and no other vector
    /\ e.off = "err" => e.circ \in {"unsat", "synth_err"}

\* the model's verdict, where it has one
Model(e) ==
  /\ e.expect = "published" => (e.load = "ok" /\ e.off = "ok")
  /\ e.expect \in {"exec_error", "failed"} => (e.load = "ok" /\ e.off = "err")

Init == l = 1
THeader == l <= Len(Rec) /\ Ev.ev = "header" /\ l' = l + 1
TZkir ==
  /\ l <= Len(Rec) /\ Ev.ev = "Zkir" /\ l' = l + 1
  /\ ~Has(Ev, "harness_error")
  /\ LoadOK(Ev) /\ RoundTrips(Ev) /\ Total(Ev) /\ Agree(Ev) /\ Model(Ev)
Next == THeader \/ TZkir
TraceSpec == Init /\ [][Next]_l

TraceAccepted ==
  LET d == TLCGet("stats").diameter IN
  IF d - 1 = Len(Rec) THEN TRUE
  ELSE Print(<<"TRACE-REJECTED first unmatched line", d, "of", Len(Rec)>>, FALSE)
=============================================================================
