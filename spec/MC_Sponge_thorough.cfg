SPECIFICATION Spec
CONSTANTS
  MaxOps = 5
INVARIANT EmitReplay
CHECK_DEADLOCK FALSE
