SPECIFICATION Spec
CONSTANTS
  P = 3
  N = 4
INVARIANT Complete
INVARIANT FoldInvariant
INVARIANT RejectsAlteredScalar
INVARIANT RejectsAlteredClaim
INVARIANT RejectsAlteredRound
CHECK_DEADLOCK FALSE
