------------------------------ MODULE MC_Sponge ------------------------------
(* Session generator for the Poseidon sponge (C07): every sequence of at most *)
(* MaxOps operations drawn from {absorb 0..3 elements, squeeze} that ends     *)
(* with a squeeze is printed as a REPLAY line (sizes only; the driver fills   *)
(* in field elements).  The state mirrors the bookkeeping of the library's    *)
(* sponge (queue length, squeeze position) so that the invariants below say   *)
(* which situations the sessions reach.                                      *)
EXTENDS Integers, Sequences, TLC, Json

CONSTANT MaxOps
VARIABLES ops, qlen, pos
Init == ops = <<>> /\ qlen = 0 /\ pos = 0
Absorb(n) == /\ Len(ops) < MaxOps /\ ops' = Append(ops, n) /\ qlen' = qlen + n /\ pos' = 0
Squeeze == /\ Len(ops) < MaxOps /\ ops' = Append(ops, -1)
           /\ IF pos > 0 THEN pos' = (pos + 1) % 2 /\ qlen' = qlen
              ELSE pos' = 1 /\ qlen' = 0
Next == (\E n \in 0..3 : Absorb(n)) \/ Squeeze
Spec == Init /\ [][Next]_<<ops, qlen, pos>>
\* tags of interest: a squeeze served from the register after an EMPTY absorb must not happen (absorb resets the position)
EmptyAbsorbAfterSqueeze == \E i \in 2..Len(ops) : ops[i] = 0 /\ ops[i - 1] = -1
EmitReplay == (Len(ops) >= 1 /\ ops[Len(ops)] = -1) =>
                 PrintT("REPLAY " \o ToJson([ops |-> ops, empty_absorb_after_squeeze |-> EmptyAbsorbAfterSqueeze]))
=============================================================================
