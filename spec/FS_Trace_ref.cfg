SPECIFICATION TraceSpec
CONSTANTS
  Mutation = "none"
  Layer = "ref"
POSTCONDITION TraceAccepted
CHECK_DEADLOCK FALSE
