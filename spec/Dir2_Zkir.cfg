SPECIFICATION Directed2Spec
CONSTANTS
  MaxLen = 4
  Directed = 2
  Emit = TRUE
INVARIANT Inv
INVARIANT EmitReplay
CHECK_DEADLOCK FALSE
