------------------------------ MODULE Map_Trace ------------------------------
(* C04, maps: sessions of the map gadget (init from an off-circuit map,      *)
(* insert, get) validated against MerkleMap instantiated with Poseidon and   *)
(* height 128.  Line 1 is the header (native modulus), line 2 the Poseidon   *)
(* constants the code publishes; every `Map` line is one circuit run: the    *)
(* session, the vector the circuit binds to the instance column (root after  *)
(* init; per insert: key, value, new root; per get: key, value found), the   *)
(* same values from the off-circuit MapMt, and - for tampered runs - which   *)
(* advice assignment the lying prover changed.                               *)
(*   honest run:   satisfiable, exposes exactly the specification's vector   *)
(*   tampered run: satisfiable only if it still exposes that vector          *)
EXTENDS Hashes, Json, IOUtils

Rec == ndJsonDeserialize(IOEnv.TRACE)
VARIABLE l
Ev == Rec[l]
NativeM == Trim(Rec[1].native)
Consts == Rec[2]
PH(a, b) == PoseidonHash(<<a, b>>, Consts.mds, Consts.rc, NativeM)
IdxBit(i, j) == Bit(i, j)
Bit0(i) == Bit(i, 0)
MM == INSTANCE MerkleMap WITH Height <- 128, H2 <- PH, Bt <- IdxBit, Lsb <- Bit0, Shr1 <- Half
\* the leaf of a key: the first 128 bits of Poseidon(key, 0)
IndexOf(k) == LowBits(PH(k, Zero), 128)
RootOf(es) == MM!RootIter(es, Zero)

InitEntries(e) == FoldLeft(LAMBDA es, kv : MM!Put(es, IndexOf(kv[1]), kv[2]), {}, e.init)
\* <<content, exposed vector>> after the whole session
Session(e) ==
  LET es0 == InitEntries(e)
      Step(acc, op) ==
        IF op.op = "insert"
        THEN LET es2 == MM!Put(acc[1], IndexOf(op.k), op.v) IN <<es2, acc[2] \o <<op.k, op.v, RootOf(es2)>>>>
        ELSE <<acc[1], acc[2] \o <<op.k, MM!Lookup(acc[1], Zero, IndexOf(op.k))>>>>
  IN FoldLeft(Step, <<es0, <<RootOf(es0)>>>>, e.ops)
\* what the off-circuit map reported: the roots and the looked-up values, without the keys and inserted values
CpuView(e, vec) ==
  LET Step(acc, op) ==     \* acc = <<position in vec, collected>>
        IF op.op = "insert" THEN <<acc[1] + 3, Append(acc[2], vec[acc[1] + 2])>> ELSE <<acc[1] + 2, Append(acc[2], vec[acc[1] + 1])>>
  IN FoldLeft(Step, <<2, <<vec[1]>>>>, e.ops)[2]

MapOK(e) ==
  IF e.tampered /\ e.status # "sat" THEN TRUE
  ELSE LET exp == Session(e)[2] IN
       /\ e.status = "sat"
       /\ e.exposed = exp
       /\ e.cpu = CpuView(e, exp)

TInitL == l = 1
THeader == l <= Len(Rec) /\ Ev.ev \in {"header", "PoseidonConstants"} /\ l' = l + 1
TMap == l <= Len(Rec) /\ Ev.ev = "Map" /\ MapOK(Ev) /\ l' = l + 1
TraceSpec == TInitL /\ [][THeader \/ TMap]_l

TraceAccepted ==
  LET d == TLCGet("stats").diameter IN
  IF d - 1 = Len(Rec) THEN TRUE
  ELSE Print(<<"TRACE-REJECTED first unmatched line", d, "of", Len(Rec)>>, FALSE)
=============================================================================
