------------------------------- MODULE Base64 -------------------------------
(***************************************************************************)
(* Base64 and base64url decoding (RFC 4648) as the in-circuit decoder of     *)
(* C19 is specified to behave, and the replay validation of its runs.        *)
(*                                                                         *)
(* WellFormed(s, url, padded): every character is in the alphabet of the     *)
(* variant; with padding the length is a multiple of 4 and `=` occurs only   *)
(* as the last one or two characters; without padding `=` does not occur,    *)
(* the length is not 1 modulo 4.  (Whether the bits that do not belong to a  *)
(* decoded byte are zero is left open, as RFC 4648 3.5 does.)                *)
(* Decode(s): the bytes of the 6-bit values; the gadget returns 3 bytes per  *)
(* (possibly incomplete) group of 4 characters, the missing ones being 0.    *)
(* A `B64` line is a run of the decoder under MockProver with input and      *)
(* output exposed; required: satisfiable iff the input is well-formed, and   *)
(* then the exposed output is Decode(exposed input).  For variable-length    *)
(* runs the decoded vector cannot be exposed: its limits are, and the value  *)
(* the prover holds is compared.                                             *)
(***************************************************************************)
EXTENDS Integers, Sequences, FiniteSets, Json, IOUtils, TLC

Rec == ndJsonDeserialize(IOEnv.TRACE)
VARIABLE l
Ev == Rec[l]

Upper == 65..90      \* A-Z
Lower == 97..122     \* a-z
Digit == 48..57
Plus == 43  Slash == 47  Minus == 45  Under == 95  Pad == 61
Val(c) == CASE c \in Upper -> c - 65 [] c \in Lower -> c - 71 [] c \in Digit -> c + 4
            [] c \in {Plus, Minus} -> 62 [] c \in {Slash, Under} -> 63
InAlphabet(c, url) == c \in Upper \cup Lower \cup Digit \cup (IF url THEN {Minus, Under} ELSE {Plus, Slash})

NPad(s) == IF Len(s) >= 1 /\ s[Len(s)] = Pad THEN (IF Len(s) >= 2 /\ s[Len(s) - 1] = Pad THEN 2 ELSE 1) ELSE 0
Body(s) == SubSeq(s, 1, Len(s) - NPad(s))
\* number of characters of the last (incomplete) group and the bits they leave over
Rem4(n) == n % 4
TrailingBitsZero(body) ==
  LET r == Rem4(Len(body)) IN
  CASE r = 0 -> TRUE
    [] r = 2 -> Val(body[Len(body)]) % 16 = 0
    [] r = 3 -> Val(body[Len(body)]) % 4 = 0
    [] OTHER -> FALSE
WellFormed(s, url, padded) ==
  LET body == IF padded THEN Body(s) ELSE s IN
  /\ \A i \in 1..Len(body) : InAlphabet(body[i], url)
  /\ padded => (Len(s) % 4 = 0 /\ NPad(s) \in {0, 1, 2} /\ (Len(s) = 0 \/ Rem4(Len(body)) # 1))
  /\ ~padded => Rem4(Len(body)) # 1
\* (RFC 4648 3.5 lets a decoder accept non-zero pad bits: canonicity is not part of well-formedness here)
Canonical(s, padded) == TrailingBitsZero(IF padded THEN Body(s) ELSE s)

\* 3 bytes per group of 4 characters, missing characters (and padding) count as zero bits
Decode(s, padded) ==
  LET body == IF padded THEN Body(s) ELSE s
      ng == (Len(s) + 3) \div 4
      v(i) == IF i <= Len(body) THEN Val(body[i]) ELSE 0
      word(g) == v(4 * g - 3) * 262144 + v(4 * g - 2) * 4096 + v(4 * g - 1) * 64 + v(4 * g)
  IN [j \in 1..(3 * ng) |-> LET g == ((j - 1) \div 3) + 1  k == (j - 1) % 3 IN
                             (word(g) \div (IF k = 0 THEN 65536 ELSE IF k = 1 THEN 256 ELSE 1)) % 256]
DecodedLen(s) == LET body == Body(s) IN (Len(body) * 6) \div 8

FixedOK(e) ==
  LET n == Len(e.input) IN
  IF ~e.tampered
  THEN /\ (e.status = "sat") <=> WellFormed(e.input, e.url, e.padded)
       /\ e.status = "sat" => (SubSeq(e.exposed, 1, n) = e.input /\ SubSeq(e.exposed, n + 1, Len(e.exposed)) = Decode(e.input, e.padded))
  ELSE \* a lying prover: whatever is exposed must be a well-formed input with its decoding
       e.status = "sat" =>
         LET w == SubSeq(e.exposed, 1, n) IN
         /\ \A i \in 1..n : w[i] \in 0..255
         /\ WellFormed(w, e.url, e.padded)
         /\ SubSeq(e.exposed, n + 1, Len(e.exposed)) = Decode(w, e.padded)
\* variable length (always padded): limits of the decoded vector for its length, and the prover-side value
VarOK(e) ==
  LET mo == (e.m * 3) \div 4
      ao == (e.a * 3) \div 4
      dl == (Len(e.input) * 3) \div 4                       \* the gadget's length: 3/4 of the padded input
      pad == (ao - (dl % ao)) % ao
  IN /\ (e.status = "sat") <=> WellFormed(e.input, e.url, TRUE)
     /\ e.status = "sat" => (e.exposed = <<mo - dl - pad, mo - pad>> /\ e.value = Decode(e.input, TRUE))

TInit == l = 1
THeader == l <= Len(Rec) /\ Ev.ev = "header" /\ l' = l + 1
TB64 == l <= Len(Rec) /\ Ev.ev = "B64" /\ (IF Ev.var THEN VarOK(Ev) ELSE FixedOK(Ev)) /\ l' = l + 1
TraceSpec == TInit /\ [][THeader \/ TB64]_l
TraceAccepted ==
  LET d == TLCGet("stats").diameter IN
  IF d - 1 = Len(Rec) THEN TRUE
  ELSE Print(<<"TRACE-REJECTED first unmatched line", d, "of", Len(Rec)>>, FALSE)
=============================================================================
