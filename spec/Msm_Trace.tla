------------------------------ MODULE Msm_Trace ------------------------------
(* C12 replay validation.                                                     *)
(*  Msm lines: every entry point's result must be the point ExpectedPoint of  *)
(*    Msm.tla for the named scalar and base patterns.                         *)
(*  Fft lines (toy field F_P, P = 12289, the real generic code): the FFT is   *)
(*    the DFT by definition with a primitive n-th root of unity; Lagrange <-> *)
(*    coefficient <-> extended-coset conversions agree with evaluating the    *)
(*    polynomial; rotation multiplies by a power of omega; l_i_range gives    *)
(*    the Lagrange basis polynomials by their defining product; division by   *)
(*    the vanishing polynomial, division by a linear factor, evaluation,      *)
(*    inner product and interpolation agree with plain polynomial arithmetic. *)
EXTENDS Msm, IOUtils, Sequences, TLC

Rec == ndJsonDeserialize(IOEnv.TRACE)
VARIABLE l
Ev == Rec[l]
Has(e, f) == f \in DOMAIN e

PtOf(j) == [id |-> j.id, x |-> j.x, y |-> j.y]
MsmOK(e) ==
  LET cv == CurveOf(e.curve)
      want == ExpectedPoint(cv, e.n, e.scal, e.base)
      R == e.results
  IN /\ ~Has(R.msm_best, "panic") /\ PtOf(R.msm_best) = want
     /\ ~Has(R.msm_parallel, "panic") /\ PtOf(R.msm_parallel) = want
     /\ ~Has(R.msm_serial, "panic") /\ PtOf(R.msm_serial) = want
     /\ Has(R, "multi_exp") => (~Has(R.multi_exp, "panic") /\ PtOf(R.multi_exp) = want)

\* ---- the toy field --------------------------------------------------------
P == 12289
M(x) == ((x % P) + P) % P
RECURSIVE PowP(_, _)
PowP(b, e) == IF e = 0 THEN 1 ELSE LET h == PowP(b, e \div 2) IN IF e % 2 = 0 THEN M(h * h) ELSE M(M(h * h) * b)
InvP(x) == PowP(x, P - 2)
PowZ(b, e) == IF e >= 0 THEN PowP(b, e) ELSE PowP(InvP(b), 0 - e)
RECURSIVE EvalFrom(_, _, _)
EvalFrom(cs, x, i) == IF i > Len(cs) THEN 0 ELSE M(cs[i] + x * EvalFrom(cs, x, i + 1))      \* Horner
Eval(cs, x) == EvalFrom(cs, x, 1)
RECURSIVE SumTo(_, _)
SumTo(f, n) == IF n = 0 THEN 0 ELSE M(f[n] + SumTo(f, n - 1))
Dft(a, w) == LET n == Len(a) IN [i \in 1..n |-> SumTo([j \in 1..n |-> M(a[j] * PowP(w, (i - 1) * (j - 1)))], n)]
Pad(cs, n) == [i \in 1..n |-> IF i <= Len(cs) THEN cs[i] ELSE 0]
RECURSIVE ProdOver(_, _)
ProdOver(f, n) == IF n = 0 THEN 1 ELSE M(f[n] * ProdOver(f, n - 1))
\* Lagrange basis polynomial of omega^i over the domain {omega^0..omega^(n-1)}, evaluated at x
LagrangeAt(w, n, i, x) ==
  LET wi == PowZ(w, i) IN
  ProdOver([j \in 1..n |-> IF PowP(w, j - 1) = wi THEN 1
                           ELSE M(M(x - PowP(w, j - 1)) * InvP(M(wi - PowP(w, j - 1))))], n)

FftOK(e) ==
  LET n == e.n
      w == e.omega
      ne == Len(e.ext)
      we == e.extended_omega
  IN /\ ~Has(e, "panic")
     /\ n = PowP(2, e.k) /\ Len(e.input) = n
     \* omega is a primitive n-th root of unity, omega_inv its inverse; same for the extended domain
     /\ PowP(w, n) = 1 /\ (n > 1 => PowP(w, n \div 2) = P - 1) /\ M(w * e.omega_inv) = 1
     /\ PowP(we, ne) = 1 /\ (ne > 1 => PowP(we, ne \div 2) = P - 1) /\ PowP(we, ne \div n) = w
     /\ e.zeta # 1 /\ PowP(e.zeta, 3) = 1
     \* FFT = DFT by definition
     /\ e.fft = Dft(e.input, w)
     \* lagrange_to_coeff: the coefficients evaluate to the Lagrange values on the domain; and back
     /\ Len(e.coeff) = n /\ \A i \in 1..n : Eval(e.coeff, PowP(w, i - 1)) = e.input[i]
     /\ e.back = e.input
     \* extended coset: evaluations at zeta * extended_omega^i; and back to (padded) coefficients
     /\ \A i \in 1..ne : e.ext[i] = Eval(e.coeff, M(e.zeta * PowP(we, i - 1)))
     /\ e.ext_back = Pad(e.coeff, ne)
     \* (coeff * (X^n - 1)) / (X^n - 1) = coeff
     /\ (e.div # <<>>) => e.div = Pad(e.coeff, ne)
     \* rotation and Lagrange basis evaluations, incl. negative and beyond-n rotations
     /\ \A i \in 1..Len(e.rots) : e.rot[i] = M(e.x * PowZ(w, e.rots[i]))
     /\ \A i \in 1..Len(e.rots) : e.l_i[i] = LagrangeAt(w, n, e.rots[i], e.x)
     \* a polynomial in Lagrange form rotated by r: the value at omega^t becomes the value at omega^(t + r), indices mod n
     \* (judged for the rotations a circuit can name, -3..3)
     /\ \A i \in 1..Len(e.rots) : (e.rots[i] >= -3 /\ e.rots[i] <= 3) => e.polyrot[i] = [t \in 1..n |-> e.input[((t - 1 + e.rots[i] + 64 * n) % n) + 1]]
     \* division by (X - z): coeff(X) = kate(X) * (X - z) + coeff(z)
     /\ e.evalz = Eval(e.coeff, e.z)
     /\ Len(e.kate) = n - 1
     /\ \A i \in 1..n : e.coeff[i] = M((IF i >= 2 THEN e.kate[i - 1] ELSE 0) - e.z * (IF i <= n - 1 THEN e.kate[i] ELSE 0)
                                      + (IF i = 1 THEN e.evalz ELSE 0))
     /\ e.inner = SumTo([i \in 1..n |-> M(e.input[i] * e.fft[i])], n)
     \* interpolation through the first points
     /\ \A i \in 1..Len(e.interp_pts) : Eval(e.interp, e.interp_pts[i]) = e.input[i]
     /\ Len(e.interp) <= Len(e.interp_pts)

CurveOK(e) ==
  (e.curve \in {"secp256k1", "bls12_381_g1", "jubjub", "curve25519", "bn256_g1"}) =>
  LET cv == CurveOf(e.curve) IN
  /\ Trim(e.p) = cv.p /\ Trim(e.r) = cv.r /\ Pt(Trim(e.gx), Trim(e.gy)) = cv.g

TInitL == l = 1
THeader == l <= Len(Rec) /\ Ev.ev = "header" /\ l' = l + 1
TCurve == l <= Len(Rec) /\ Ev.ev = "Curve" /\ CurveOK(Ev) /\ l' = l + 1
TMsm == l <= Len(Rec) /\ Ev.ev = "Msm" /\ MsmOK(Ev) /\ l' = l + 1
TFft == l <= Len(Rec) /\ Ev.ev = "Fft" /\ FftOK(Ev) /\ l' = l + 1
TraceSpec == (TInitL /\ c = 1 /\ s = 0 /\ inst = <<>>) /\ [][(THeader \/ TCurve \/ TMsm \/ TFft) /\ UNCHANGED <<c, s, inst>>]_<<l, c, s, inst>>

TraceAccepted ==
  LET d == TLCGet("stats").diameter IN
  IF d - 1 = Len(Rec) THEN TRUE
  ELSE Print(<<"TRACE-REJECTED first unmatched line", d, "of", Len(Rec)>>, FALSE)
=============================================================================
