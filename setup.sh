#!/bin/sh
# Offline set-up: build the harness against /repo and parse every specification module.
set -e
cd "$(dirname "$0")"
mkdir -p work evidence replays
[ -f harness/Cargo.lock ] || cp /repo/Cargo.lock harness/Cargo.lock
(cd harness && CARGO_NET_OFFLINE=true cargo build --release --offline)
mkdir -p work/jcls
javac -cp /opt/veriftools/tla/tla2tools.jar:/opt/veriftools/tla/CommunityModules-deps.jar -d work/jcls spec/java/tlc2/module/BigNat.java
for m in spec/*.tla; do
  (cd spec && tla-sany "$(basename "$m")" >/dev/null 2>&1) || { echo "SANY failed on $m"; exit 1; }
done
echo setup ok
