#!/usr/bin/env python3
"""Regenerates /verif/MANIFEST.json from the table below (one entry per built check)."""
import json
import os

ROOT = os.path.dirname(os.path.dirname(os.path.abspath(__file__)))

CHECKS = {
    "C01": dict(
        category="model_checking",
        text=("TLC explores the FiatShamir specification (prover and verifier transcript programs, KZG "
              "multi-open schedule) exhaustively over a family of circuit shapes and checks agreement, "
              "typed stream, challenge binding and completeness; a seeded selection of those shapes plus "
              "random members of the circuit family is instantiated as real circuits, proven and verified "
              "with the real create_proof/prepare/verify under recording transcripts (both transcript "
              "hashes, several k, 1..4 proofs, committed/plain instance splits, fixed-table lookups, one- and two-pair "
              "lookup_any arguments with the highest-degree input and table expressions in different pairs), and every recorded run is "
              "validated by TLC against the specification (property layer: the verifier reads and absorbs "
              "exactly what the prover wrote and accepts; refinement layer: both follow the modelled "
              "schedule for the shape the code reports)."),
        design_ref="DESIGN.md 4/C01",
        note=("Bounded: shapes of the generated family only; random-oracle idealisation for challenges; "
              "the harness circuit family is trusted to produce satisfiable witnesses (cross-checked with "
              "MockProver on every run)."),
        technique="TLA+/TLC model checking of FiatShamir + trace validation of recorded prover/verifier transcripts",
    ),
    "C02": dict(
        category="model_checking",
        text=("ConstraintSystem!Satisfied (gates on every usable row, lookup membership, copy equalities, "
              "selector-gated additive constraints) is the definition; Arguments.tla shows by exhaustive TLC search "
              "over all small instances that the permutation, lookup and trash arguments the verifier checks are "
              "equivalent to the corresponding clauses. Against the code: for TLC-enumerated shapes the harness "
              "extracts the REAL constraint system and tables (expression trees, lookups, trash arguments, copy "
              "partition) and, for every fault {+1, 0, +3} of every assigned advice cell, faults on unused cells and "
              "on every instance cell (injected by a hook-free wrapper floor planner identically into MockProver and "
              "the real prover), records MockProver::verify and real create_proof+verify; TLC recomputes Satisfied "
              "from the extracted system for each faulted assignment and a line is consumed only if BOTH verdicts "
              "equal it (so unused-cell faults must be accepted and every isolated class violation rejected). The family includes "
              "circuits whose single region fills every usable row and cells assigned as fractions with deferred inversion "
              "(incl. an inverse of zero, which must evaluate to zero for the real prover as for MockProver)."),
        design_ref="DESIGN.md 4/C02",
        note=("Single-phase shapes with small values so exact integer semantics equals field semantics; lookup "
              "product rules cannot be violated in isolation through an honest prover (prover refusal counts as "
              "reject); gates judged on usable rows."),
        technique="TLA+/TLC: exhaustive equivalence of arguments and meaning + extracted constraint systems judged by TLC in trace validation",
    ),
    "C03": dict(
        category="fault_enumeration",
        text=("FiatShamir is model-checked with one adversarial edit between proving and verifying (any proof "
              "element forged or made undecodable, truncation, extension, every public-input edit including moving a "
              "value between adjacent columns, committed-instance and key replacement): no edit is accepted, and the "
              "reasons (every element absorbed before a later challenge, lengths and key absorbed) are invariants. "
              "Against the code: honest proofs of TLC-chosen shapes are produced by the real prover and the complete "
              "tamper plan the specification derives from the RECORDED proof layout (every element x other valid "
              "value / invalid or non-canonical encoding / sign flip / the same point plus a point of cofactor order, "
              "truncation at and inside every element, "
              "appended bytes, all public-input edits, committed instances, wrong key / k / hash, thorough: every "
              "single-bit flip) is run against the real verifier; the trace spec demands the model's verdict for "
              "each and the completeness of the plan. The standard library's own entry points (verify, batch_verify on batches "
              "of one and two, at each position) get a byte-level plan (appended bytes, truncations, bit flips spread over the "
              "proof, a changed public input) with the same rule. Proofs whose last byte is zero are built on purpose (re-proving with fresh "
              "blinding) and the last 1..3 bytes of every proof are dropped."),
        design_ref="DESIGN.md 4/C03",
        note=("Single edits only (the property's quantifier); soundness up to negligible probability; "
              "proof_same/stmt_same/key_same facts are harness byte comparisons; panics count as violations."),
        technique="TLA+/TLC model checking of FiatShamir with an adversary + spec-derived fault enumeration validated as traces",
    ),
    "C04": dict(
        category="model_checking",
        text=("NativeOps.tla defines the domain and the outputs of every native-gadget operation (arithmetic, linear "
              "combinations, inversion/division, zero/equality tests, boolean logic, select/swap, bit and byte "
              "decomposition and recomposition, bounded comparison, sign, range checks incl. successive checks on one "
              "cell, div_rem, bitwise ops) over Z/12289 and enumerates operation x parameter x boundary-input "
              "scenarios. The real generic NativeGadget code runs over the same toy field under MockProver with inputs "
              "and outputs exposed; the values the circuit itself binds to the instance column are extracted from its "
              "copy constraints. Native_Trace recomputes Dom/Def in TLC and demands completeness and the soundness game "
              "'satisfiable => exposed outputs = Def(exposed inputs) and inputs in Dom' for honest runs and for tamper "
              "plans in which the guarded hook H1 replaces the i-th advice assignment consistently (every index x "
              "faults +1, -1, 0, 1-v, v+2^j). GadgetSat.tla plays the same game with the FULL adversary on tiny fields: the "
              "real constraint system (gates, lookups, copies, fixed columns, assigned cells, exposure cells) of each algebraic "
              "operation circuit built by the generic code over F_5 (and F_7) is extracted, and TLC searches EVERY assignment "
              "of the assigned advice cells row by row (gates and copies prune); the invariant demands that every satisfying "
              "assignment exposes outputs = Def(inputs) with inputs in Dom, and the inputs reached must be the whole domain "
              "(36 operation instances on quick, all of them over both fields plus sgn0 / to_le_bits over F_5 on thorough). "
              "Variable-length vectors (VectorGadget over the toy field): NativeOps defines the limits, padding flags, trim, resize and "
              "equality of AssignedVector<M, A> for every (length, alignment) layout; the driver assigns vectors of every payload length "
              "0..M in shapes (8,2) and (12,4), exposes the buffer, limits and flags, and the trace spec demands them under the same tamper plans. "
              "Operand sources: add / sub / mul (with and without a multiplying constant) with an operand taken from the fixed-constant cell of "
              "value 0, 1, 5, p-1 (arith_src), also in the exhaustive GadgetSat list. Key-value maps: MerkleMap.tla (sparse Merkle tree, "
              "parametric in the hash; get = Lookup proved by Climb(path) = Root, insert = Put proved by the same path) is model-checked "
              "on a tree of height 3 with a free hash (membership proofs climb to the root, insert leaves the path unchanged, the root "
              "binds every value, writing the default is removal, insertions commute, the level-by-level root equals the recursive "
              "one; a colliding hash must break them); its sessions (and sessions on populated maps) run through the in-circuit "
              "MapGadget and the off-circuit MapMt with roots, keys, values and results exposed, honest and tampered, and Map_Trace "
              "recomputes every root with Poseidon at height 128."),
        design_ref="DESIGN.md 4/C04",
        note=("Toy field 12289 (generic code); single consistent fault per run; MockProver judges satisfiability; the "
              "exhaustive tiny-field search covers the algebraic operations only (lookup-heavy ones exceed it; sgn0 / to_le_bits over F_5 only); map soundness is up to collisions of Poseidon (the leaf index is 128 bits of a hash)."),
        technique="TLA+/TLC-computed definitions over a toy field + replay of the real generic gadgets with consistent tamper plans, validated by a trace spec",
    ),
    "C05": dict(
        category="fault_enumeration",
        text=("ForeignOps.tla gives, over BigNat (arbitrary-size naturals for TLC), the meaning of every FieldChip operation on "
              "the five deployed emulated fields (secp256k1 base and scalar, BLS12-381 base, Curve25519 base and scalar over the "
              "BLS12-381 scalar field) and of every BigUintGadget operation, with the public-input encodings of emulated "
              "elements and big integers. MC_ForeignOps enumerates scenarios (field x operation x boundary operand classes "
              "{0, 1, 2, m-1, m-2, 2^LB-1, 2^LB, 2^LB+1, all-ones limbs, (m+-1)/2, ...} incl. chains that leave elements "
              "un-normalised; big integers over widths 1..2048 bits) and checks Decode(Encode(x)) = x and canonicity on every "
              "operand. The driver replays them into the real chips on the deployed native field under MockProver with inputs "
              "and outputs exposed as public inputs; what the circuit ITSELF exposes is extracted from its copy constraints. "
              "Foreign_Trace decides completeness (in-domain honest runs satisfiable with exactly Encode(ins, Def(ins))) and "
              "soundness (satisfiable with an instance that encodes typed values => ins in domain and outs = Def(ins)) for "
              "every run, also under tamper plans (hook H1: one advice assignment replaced consistently; faults +1, -1, 0, "
              "+2^LB, random, spread over the assignments of the operation)."),
        design_ref="DESIGN.md 4/C05",
        note=("Bounded adversary (single consistent fault per run, sampled assignment indices on quick); satisfiability judged "
              "by MockProver; parameter sets compiled in for the deployed native field only (bn256 dev-curves not covered); "
              "BigNat evaluated through a Java override whose agreement with the TLA+ definitions is self-tested."),
        technique="TLA+/TLC: ForeignOps over BigNat generates scenarios, recorded gadget runs (honest and tampered via H1) validated as traces",
    ),
    "C06": dict(
        category="fault_enumeration",
        text=("Curve.tla is an executable TLA+ model of secp256k1, BLS12-381 G1 and Jubjub over BigNat (affine group law, "
              "scalar multiplication, multi-scalar product, subgroup membership; its constants are checked in-model - G on the "
              "curve, r.G = identity - and against the constants the code reports). EccOps.tla gives domain, caller "
              "preconditions and result of every in-circuit instruction (assign, add, double, negate, mul_by_constant, msm, "
              "msm_by_bounded_scalars, msm_by_le_bits, scalars from bytes, is_equal, assertions, select, coordinate extraction, "
              "point_from_coordinates, BLS subgroup assertion). MC_EccOps enumerates scenarios over operand classes "
              "{identity, G, small multiples, P = Q, P = -Q}, scalar classes {0, 1, 2, r-1, r-2, r, r+1, 2^128-1, 2^128, "
              "2^(bits-1)-1, random}, msm sizes, every pattern of scalar bounds, on-/off-curve and off-subgroup coordinates, "
              "and checks that the model's group law is consistent with naming points by discrete logarithms. The driver "
              "replays them into the standard library's chips under MockProver with inputs and outputs exposed as public "
              "inputs; Ecc_Trace decides completeness and soundness of every run, also under tamper plans (hook H1). Hash to curve: "
              "HashToCurve.tla derives the Montgomery and Weierstrass models of Jubjub from its Edwards coefficients, defines the "
              "Shallue-van de Woestijne map of RFC 9380 with constants derived from the curve and Z (square roots by Tonelli-Shanks "
              "in the model), the rational maps to Montgomery and Edwards form, cofactor clearing, and hash_to_curve as the sum of "
              "the images of two sponge squeezes; the parameters the code publishes (Z, A, B, J, K, c1..c4) must be the derived ones "
              "and Z must meet the RFC's criteria; map_to_curve (boundary, random and the exceptional inputs u^2 g(Z) = +-1) and "
              "hash_to_curve (0..8 inputs) run off-circuit and in-circuit with inputs and point exposed, honest and tampered."),
        design_ref="DESIGN.md 4/C06",
        note=("Bounded adversary (single consistent fault, sampled indices, cheap operations only on quick); "
              "Jubjub coordinates of low-order / off-subgroup points are refused by witness generation (a panic, counted as not satisfiable); whether the "
              "constraints alone exclude them needs a two-cell lie, outside the one-fault adversary; msm sizes 1..3 on quick, 1..8 on thorough. Two open known findings "
              "(BLS12-381 point_from_coordinates without subgroup check; mul_by_constant on the identity with a constant "
              "above 128 bits), see known_findings.json."),
        technique="TLA+/TLC: executable Curve model + EccOps semantics generate scenarios; recorded gadget runs (honest and tampered via H1) validated as traces",
    ),
    "C07": dict(
        category="fault_enumeration",
        text=("Hashes.tla defines SHA-256 and SHA-512 from FIPS 180-4 over BigNat - padding, message schedule, compression, and "
              "the constants as the first 32/64 bits of the fractional parts of the square and cube roots of the first primes, "
              "computed by integer roots in the specification itself - and Poseidon (textbook x^5 permutation, width 3, rate 2, 8 "
              "full and 60 partial rounds, the library's sponge and its transcript variant) with the MDS matrix and round constants "
              "the code publishes taken as data. MC_Hashes model-checks the padding for every message length 0..200 (thorough "
              "0..400) and both word sizes and generates the lengths to replay (all padding-boundary residues). The driver runs the "
              "standard library's sha2_256, sha2_512, sha3_256, keccak_256, blake2b_256/512 and poseidon (0..12 inputs), and the "
              "stand-alone variable-length SHA-256 gadget (bounds 128 and 256, actual lengths on every boundary residue below and "
              "above one block, adversarial non-zero filler around the data), under MockProver with message and digest exposed as "
              "public inputs. Hash_Trace recomputes the digest from the definitions on the message the circuit exposes (for "
              "SHA3/Keccak/BLAKE2b an independent crate's digest stands in for the definition), for honest runs and under tamper "
              "plans (hook H1); the off-circuit Poseidon hash and the transcript sponge are checked against the same definition. "
              "Sponge sessions: Hashes.tla holds the sponge state machine (absorb queue, squeeze position, permutation on rate overflow); "
              "MC_Sponge model-checks it and generates absorb/squeeze schedules, which are replayed on the CPU sponge and on the in-circuit "
              "PoseidonChip sponge with every squeezed value exposed. RIPEMD-160: an executable definition from the original specification "
              "(constants derived in the model as integer parts of 2^30 times square and cube roots; the two test vectors of the paper checked "
              "as ASSUMEs; padding model-checked for every length) judges the stand-alone chip on every padding-boundary length, honest and "
              "tampered. Variable-length Poseidon: the digest must be Poseidon of the payload for every payload length 0..M of vectors of capacity "
              "4, 8, 12 whatever fills the rest of the vector (zero and non-zero fillers)."),
        design_ref="DESIGN.md 4/C07",
        note=("Not covered: partial-round skipping as such (only through results), "
              "the generation of the Poseidon constants; SHA3/Keccak/BLAKE2b have no TLA+ definition (reference crates); tamper plans "
              "are sampled (the large chips make tens of thousands of assignments)."),
        technique="TLA+/TLC: executable SHA-2 and Poseidon definitions over BigNat re-evaluate recorded gadget runs (honest and tampered via H1); padding model-checked",
    ),
    "C08": dict(
        category="fault_enumeration",
        text=("PublicInputs.tla defines Encode/Decode for every exposable type (bit, byte, native, emulated elements of the "
              "secp256k1 fields and the BLS12-381 base field, big integers of declared width, Jubjub points and scalars, "
              "secp256k1 and BLS12-381 G1 points with the identity flag) over BigNat and Curve (an executable TLA+ model of "
              "the three curves whose constants are checked against the code's). TLC checks on menus of boundary values "
              "(identity, 0, m-1, maximal limbs, all limb counts) that Decode(Encode(v)) = v and that no two values share an "
              "encoding. The driver builds standard-library relations exposing every menu item alone through both exposure "
              "paths, values computed in-circuit by un-normalised arithmetic, and mixed lists of 0..40 items; it records the "
              "off-circuit encoder's vector, the vector the circuit itself binds (from its copy constraints), satisfiability "
              "with the encoder's vector and with every sampled single-position edit {+1, -1, 0/1, +2^64}, and for a subset "
              "the public-input count stored by setup_vk and the verdicts of the real prove/verify on right, shorter, "
              "longer and edited vectors. PubIn_Trace requires encoder = Encode(value), exposure = encoder's vector, every "
              "edit rejected, stored count = total length, verify accepts exactly the right vector. Accumulators of the verifier gadget: "
              "AccEncode / MsmEncode (bases as foreign points, scalars, then the scalars of the NAMED fixed bases in byte-wise "
              "lexicographic order of the names); accumulators are witnessed from name lists in canonical (index), reversed and "
              "shuffled order with 3..25 fixed and permutation commitments, exposed by VerifierGadget::constrain_as_public_input "
              "and compared with AssignedAccumulator::as_public_input and the specification. Committed instances: relations with np plain and nc "
              "committed public inputs - the key must record np, and the real verifier must accept exactly the plain vector with the "
              "commitment to the committed values (shorter, longer, padded vectors, another or no commitment rejected). Encoder domain: "
              "big integers that do not fit the limbs of the declared width (MC_PublicInputs!DomOK: exactly those do not survive the limb "
              "decomposition and their truncation is the encoding of another value) must be refused by AssignedBigUint::as_public_input "
              "or at least not answered with a well-formed encoding (PubIn_Trace!EncDomOK). Instance columns read at non-zero rotations: "
              "circuits of the generated family are proven and verified for real; the verifier must accept the honest vector and "
              "no edited, rotated, shorter or longer one (PubIn_Trace!PubRotOK)."),
        design_ref="DESIGN.md 4/C08",
        note=("Not covered: verifying-key identities of the verifier gadget (exercised inside C20's verifier circuit only), the committed-scalar "
              "accumulator path, IR value types (zkir publish: under C18). Edits are sampled positions on long vectors; satisfiability judged by MockProver."),
        technique="TLA+/TLC: PublicInputs Encode/Decode model checked for round trip and injectivity; recorded exposures and edit verdicts validated as traces",
    ),
    "C09": dict(
        category="model_checking",
        text=("Self-composition on recorded builder runs: every circuit is synthesised through a hook-free recording "
              "Assignment (public plonk::Assignment trait, driven by the circuit's own floor planner as key generation "
              "does) with an unknown witness and with concrete witnesses steering the data-dependent branches of the "
              "off-circuit helpers (zero/non-zero, equal/opposite/identity points, borrows and carries, maximal limbs, "
              "all-zero/all-ones bytes). Builder_Trace requires the structural projection - enabled selectors, fixed "
              "cells, table fills, copy constraints, advice column heights, instance cells queried, region count - to be "
              "a function of the circuit alone, and keys generated without a witness to verify honest proofs (real "
              "setup_vk/prove/verify for selected relations). Circuits: all native-gadget operations over the toy field "
              "and standard-library relations (native, Jubjub, emulated secp256k1 field and curve incl. "
              "mul_by_constant, big integers, SHA-256, Poseidon, mixed; bytes obtained by assignment, decomposition and "
              "selection read as native values and compared under bounds of 8 and 16 bits)."),
        design_ref="DESIGN.md 4/C09",
        note=("Structural sets compared via counts and a 128-bit digest; listed boundary witnesses only; which "
              "individual advice cells are written is reported but only column heights are required to agree; the "
              "CircuitBuilder state-machine model of DESIGN 2 is not built (the trace spec holds the non-interference "
              "statement)."),
        technique="TLA+ trace specification (self-composition / non-interference) over recorded Assignment event digests",
    ),
    "C10": dict(
        category="exploration",
        text=("The driver calls the field types of midnight-curves - BLS12-381 Fq and Fp, Jubjub Fr, secp256k1 Fp and Fq, "
              "Curve25519 Fp and Scalar, BN254 Fq and Fr, the quadratic extensions BLS12-381 Fp2 and BN254 Fq2, and Fp6 / Fp12 of both "
              "pairing curves (Tower.tla: schoolbook arithmetic from v^3 = xi, w^2 = v; structural Frobenius maps checked in-model against "
              "x^p; add, sub, mul, square, invert, Frobenius powers 0..13, conjugation, multiplication by the non-residue, the sparse "
              "products mul_by_1/01/014/034 and cyclotomic squaring; Fq2 byte encodings, ordering, norm, 96-byte uniform reduction) - on "
              "boundary operand classes {0, 1, 2, 3, 5, p-1, p-2, 2^64+-1, 2^128-1, 2^192-1, (p+-1)/2, Montgomery R, R^2, "
              "2^384 mod p, random}: add, sub, mul (by value and assigning), neg, square, cube, double, invert, batched "
              "inversion, pow (constant-time and vartime, one- and two-limb exponents), sqrt (incl. embedded base-field "
              "residues and non-residues in the extensions), the quadratic-residue test (Legendre symbol and its constant-time flags, "
              "judged by Euler's criterion, zero included), parity, equality, canonical encodings (round trip, decoders at "
              "p-2..p+2 and all-ones), reduction from 64 uniform bytes, published constants; about 16 700 calls logged with "
              "integer arguments and results. Field_Trace recomputes every result over BigNat (Z/m; F_p[u]/(u^2+1)) and checks "
              "the defining equations of the constants (two-adicity, generator a non-residue, root of unity of exact order "
              "2^S, delta, zeta, 2^-1). BigNat's Java evaluator override is checked against the TLA+ definitions by evaluating "
              "BigNat_SelfTest with and without it on every run."),
        design_ref="DESIGN.md 4/C10",
        note=("The specification is stateless here: TLC is the evaluator of the mathematical definition (DESIGN.md 1.2(D)). Not "
              "covered: Montgomery internals, sqrt in Fp6/Fp12 (unimplemented in the code), from_uniform_bytes of the types that do not "
              "implement FromUniformBytes<64>, operands beyond the fixed menus."),
        technique="TLA+/TLC: PrimeField and extension-tower definitions over BigNat re-evaluate every recorded library call (trace validation)",
    ),
    "C11": dict(
        category="exploration",
        text=("The driver calls midnight-curves on BLS12-381 G1, secp256k1, Jubjub (extended, affine and prime-subgroup "
              "types), Curve25519, BN254 G1 and the G2 groups of both pairing curves (group law over Fp2, Tower.tla): addition and subtraction in every mix of representations and operator forms "
              "(by value, by reference, assigning), doubling, negation, equality, summation, scalar multiplication over the "
              "scalar classes {0, 1, 2, r-1, r-2, 2^128-1, 2^128, random}, batch normalisation with and without the identity, "
              "conversions, Jacobian accessors and constructors, and the encodings (round trip, affine = projective bytes, "
              "single-bit corruptions through checked and unchecked decoders), operands from {identity, G, small multiples, "
              "P = Q, P = -Q}. Every call is logged with arguments and result as affine coordinates (about 5 700 calls); "
              "CurveLib_Trace recomputes each result with the group law of Curve.tla over BigNat - whose constants are "
              "checked in-model (G on the curve, r.G = identity, (r-1).G = -G) and against the constants the code reports - "
              "and checks the encoding laws (decode(encode P) = P; whatever a checked decoder accepts re-encodes to the same "
              "bytes, is on the curve and in the subgroup where promised, and is accepted by the unchecked decoder)."),
        design_ref="DESIGN.md 4/C11",
        note=("Jubjub points of order 2, 4, 8 and their sums with subgroup points are covered (group law, order predicates, cofactor clearing, the three "
              "decoders); not covered: BLS12-381 / BN254 points outside the subgroup built with unchecked "
              "constructors, the byte formats themselves (judged by laws), random operands beyond the fixed menus."),
        technique="TLA+/TLC: executable Curve model over BigNat re-evaluates every recorded library call (trace validation)",
    ),
    "C12": dict(
        category="model_checking",
        text=("Msm.tla: (1) the meaning of a multi-scalar multiplication in the group of Curve.tla with scalars and bases named by "
              "patterns; (2) the signed-window (Booth) recoding and the bucket method as functions on integers, model-checked "
              "exhaustively: for every scalar below 2^8 (quick) / 2^10 (thorough) and every window size 1..5 the digits "
              "recompose the scalar and stay in [-2^(c-1), 2^(c-1)], and buckets + summation by parts + window shifts equal the "
              "naive sum on small instances. The driver runs msm_best, msm_parallel, msm_serial and G1Projective::multi_exp on "
              "BLS12-381 G1 (and BN254 G1) for lengths across every window-size switch (0..7, 31..33, 70, 255, 1000, 8103, "
              "8104, 8200; thorough: 0..70, more sizes up to 22027) x scalar classes {0, 1, r-1, 2, random, alternating, "
              "duplicated} x base classes {G, identity, small multiples incl. identity, repeated, mutually opposite, "
              "duplicated terms} under rayon pools of 1..16 threads; Msm_Trace requires every entry point's result to be the "
              "model's point. FFT (best_fft), Lagrange / coefficient / extended-coset conversions, rotation of points and of "
              "polynomials in Lagrange form (Polynomial::rotate, rotations -3..3 on every domain size), l_i_range incl. "
              "negative and beyond-n rotations, division by the vanishing polynomial, kate_division, eval_polynomial, "
              "compute_inner_product and lagrange_interpolate run over the toy field F_12289 (the real generic code) for k = "
              "1..6 (thorough 1..8) and quotient-degree parameters 2..8 and are re-evaluated by TLC from their definitions "
              "(DFT by definition with a primitive root, evaluation of the polynomial, defining product of the Lagrange basis)."),
        design_ref="DESIGN.md 4/C12",
        note=("Not covered: commitment in Lagrange vs monomial basis, the chunk arithmetic of parallelize / eval_polynomial as such, "
              "rational arithmetic, get_booth_index directly (private; bound through msm_best results). One open known finding "
              "(l_i_range at a point of the domain)."),
        technique="TLA+/TLC model checking of Booth recoding and the bucket method + trace validation of MSM results against the Curve model and of FFT/domain results against their definitions",
    ),
    "C13": dict(
        category="exploration",
        text=("Pairing.tla models the multi-pairing computation in discrete-logarithm form (cyclic groups of order r; Miller "
              "loop consuming one term at a time, identity terms contributing the neutral element, final exponentiation) and "
              "TLC checks bilinearity (result = sum a_i.b_i) and non-degeneracy for every list of pairs over the scalar menu "
              "{0, 1, r-1, 2} of length 0..2 (quick) / 0..3 (thorough) plus lists of length 5..8 with identities in every "
              "position pattern; a deliberately wrong variant (stop at the first identity term) is shown to violate the "
              "invariant on every run. Every explored list is replayed into both engines (BLS12-381, BN254 dev curve): "
              "product of single pairings, multi_miller_loop + final_exponentiation on prepared G2 points in both orders, "
              "pairing_with from both sides, and the Miller loops of the single pairs combined with +, + &, +=, += & before one final "
              "exponentiation; Pairing_Trace requires the logarithm of each result to the base e(g1, g2) to be "
              "the specification's, single pairings to be neutral iff an argument is the identity, and the target group's "
              "generator to have order r. The target group is also judged as the order-r subgroup of Fp12 (Tower.tla): the twelve "
              "coefficients of pairing values e(aG1, bG2) must be the (ab)-th power of e(G1, G2), which must have order r and lie in "
              "the cyclotomic subgroup; Gt +, -, negation, doubling, sums and scalar multiples must be the Fp12 product, conjugate "
              "and powers; final_exponentiation(f) must be f^(c (p^12 - 1)/r) (c = 3 for the blst engine, 1 for BN254). Finally e(P, Q) for points "
              "given by their coordinates must equal, to that power c, the optimal ate pairing AtePairing.tla writes out from first "
              "principles (affine Miller loop over the sextic twist, line functions from the untwisting map, the two Frobenius lines "
              "of BN curves, exponent (p^12 - 1)/r; seeds checked against the group orders)."),
        design_ref="DESIGN.md 4/C13",
        note=("Logarithms are found by search with the library's own Gt operations (themselves judged on coefficients); the Miller "
              "loop's intermediate value is not compared (only the reduced pairing is); Gt has no byte encoding in the library; scalars limited to the menus. One open finding (BN254 "
              "Miller-loop results combine by field addition)."),
        technique="TLA+/TLC model checking of the bilinear dlog model + replay of every explored list into both pairing engines, validated as traces",
    ),
    "C14": dict(
        category="model_checking",
        text=("KzgMultiOpen (construct_intermediate_sets as a function of the query LIST, symbolic acceptance) is "
              "model-checked over ALL query lists with <= MaxPoly polynomials x 3 points x 4 list orders x every single "
              "corruption (evaluation, point, commitment, reuse of another used point/commitment, each proof element, "
              "repeated pair on either side): completeness, soundness and duplicate refusal. Every scenario TLC "
              "enumerates (quick: all honest lists + 6000 sampled corruptions; thorough: all) is executed through the "
              "real commit/multi_open/multi_prepare with random, zero, constant, identical-behind-distinct-references "
              "and chopped (2..4 pieces) commitments, k=2..7, plus sampled lists up to 12 polynomials x 5 points and polynomials "
              "opened at as many and more points than they have coefficients (k = 2, 3 with 4 and 5 points); "
              "Kzg_Trace recomputes the verdict and the number of point sets from every logged scenario and consumes "
              "the line only if the code's outcome (ok / reject / DuplicatedQuery, never panic) and the number of "
              "evaluations in the proof equal them."),
        design_ref="DESIGN.md 4/C14",
        note=("Injective idealisation of polynomial values; exhaustive only within MaxPoly<=3 (quick) / 4 (thorough) and "
              "3 points; larger lists sampled."),
        technique="TLA+/TLC exhaustive scenario enumeration + replay into the real KZG API validated by a TLC trace spec",
    ),
    "C15": dict(
        category="model_checking",
        text=("Batch.tla follows batch_verify step by step with symbolic error terms and a colluding pair of invalid "
              "members; TLC checks BatchIffAll, NoCrash and RBindsAll for all batches of <= MaxN members of six kinds x "
              "four length-mismatch cases (and that an unscaled fold, a summary left out of r, or indexing an empty "
              "batch break them). Every enumerated batch is concretised from a pool of real proofs of two relations "
              "(valid, corrupted proof, wrong public input, wrong key, short input, unparsable, truncated, trailing "
              "bytes; repetitions, permutations, mixed relations) and run through zk_stdlib::batch_verify under a "
              "recording transcript hash, Guard::batch_verify and Accumulator::{from_dual_msm, accumulate, collapse, "
              "check} with per-key fixed-base maps; Batch_Trace demands the model's verdict, a value never a panic, r "
              "squeezed after the summary of every member, and accumulator checks equal to the conjunction of the "
              "individual verdicts observed in the same run."),
        design_ref="DESIGN.md 4/C15",
        note=("The colluding pair is real: one valid proof with its final opening witness shifted by +D and by -D (opposite "
              "errors), placed at every pair of positions; the pool members are judged against their construction by the "
              "trace spec; the binding of r to every member is also checked on the recorded batching transcript; in-circuit "
              "accumulator is covered under C20."),
        technique="TLA+/TLC model checking of Batch + replay of enumerated batches into the real batch verifier/accumulator validated by a trace spec",
    ),
    "C16": dict(
        category="fault_enumeration",
        text=("Decode.tla describes the decoders of MidnightVK, VerifyingKey, verifier parameters and the architecture "
              "descriptor (Processed and RawBytes) and of a proof as machines over the REAL field maps extracted from "
              "valid encodings; TLC enumerates every (object, field, class) scenario - boundary values of one-byte and "
              "count fields, every point/scalar encoding class (other valid, identity, non-canonical, off-curve, outside "
              "the subgroup, flag garbage), truncation at and inside every field, appended bytes - with the outcome "
              "the machine reaches (there is no crash state). The harness runs every scenario against the real "
              "decoders, then verifies a fixed valid proof and a proof of another circuit with whatever decoded, under "
              "catch_unwind with the largest single allocation recorded; plus proof truncations / extensions / bit "
              "flips / splices, unstructured flips and splices of every object and reads with the other format. "
              "Decode_Trace consumes a line only if the outcome is an allowed value: invalid encodings must be "
              "refused at decode, changed objects never verify, nothing panics or allocates beyond 64 MB."),
        design_ref="DESIGN.md 4/C16",
        note=("IR programs are covered under C18; proving keys / full parameter sets only under C17 (local artefacts); "
              "a decoder that aborts or hangs kills its harness process and is reported from the missing outcome."),
        technique="TLA+/TLC enumeration of decoder field/class scenarios over extracted layouts + replay validated by a trace spec",
    ),
    "C17": dict(
        category="model_checking",
        text=("Lifecycle.tla identifies parameters by (secret, k) and keys by (circuit, k, secret) - never by thread "
              "count, repetition, set-up-vs-downsize or serialization history - and TLC checks over all interleavings "
              "of set-up, downsize, key generation and compatible round trips that the bytes per identity remain a "
              "function. The harness records those events from the real code (ParamsKZG set-up and downsize to every "
              "k' against a fresh set-up from the same secret; keygen_vk/keygen_pk under thread pools {1,2,3,8,16}, "
              "repeated; write/read of parameters, VerifyingKey, ProvingKey, MidnightVK, MidnightPK in all nine "
              "format pairs, for circuits with and without column annotations; proofs by original and reloaded proving keys verified under original and reloaded "
              "verifying keys) and Lifecycle_Trace rejects a second hash for an identity, a lossy or refused "
              "compatible round trip, an incompatible read that silently yields another object and any failed cross "
              "verification."),
        design_ref="DESIGN.md 4/C17",
        note="Bytes compared through a hash; proof bytes are not deterministic (OsRng blinding), so cross checks compare verdicts.",
        technique="TLA+/TLC model checking of Lifecycle + trace validation of recorded lifecycle events",
    ),
    "C18": dict(
        category="model_checking",
        text=("Zkir.tla is the IR as a generator-with-oracle: six value types, seventeen operations, arity table, typing "
              "rules, failure conditions (assertions, BigUint underflow, byte-conversion ranges, zero modulus), memory of "
              "named values, constants in every surface form, Publish. TLC checks all programs of <= 2 instructions "
              "exhaustively and, in simulation, grows longer straight-line programs with witnesses from boundary menus "
              "and ill-formed variants (wrong arity, ill-typed operands and witnesses, unknown / duplicate names), "
              "printing each finished program with the outcome the model derives. A directed family - load one value; one or two unary "
              "steps (conversions between bytes and every other type in both directions, negation, hashing, coordinates) on the value "
              "bound last; publish - is enumerated exhaustively (6480 programs) because random simulation almost never builds such "
              "chains; one program per signature is replayed (all of them on thorough). A stratified sample of the others runs through the "
              "real loader (from_instructions + JSON and bincode round trips), the off-circuit evaluator and the "
              "compiled circuit under MockProver, where the values the circuit itself binds to the instance column are "
              "extracted from its copy constraints: Zkir_Trace requires values never panics, success => circuit "
              "satisfiable exactly with encode(P) (self-exposed values equal encode(P), single-position edits "
              "unsatisfiable), failure => circuit unsatisfiable even with its own exposed values, and the model's verdict."),
        design_ref="DESIGN.md 4/C18",
        note=("Points, scalars and digests are opaque in the model (verdict 'any': only agreement is required); "
              "satisfiability judged by MockProver; two open known findings (ill-typed programs panic when the circuit "
              "is built; a JubjubScalar obtained from bytes and then published is exposed differently off- and in-circuit)."),
        technique="TLA+/TLC exhaustive + simulation-generated IR programs replayed off-circuit and in-circuit, validated by a trace spec",
    ),
    "C19": dict(
        category="model_checking",
        text=("Regex.tla gives the expressions of parsing::regex their meaning by Brzozowski derivatives over marked "
              "letters (associative-commutative-idempotent normal forms keep the derivative automaton finite) and explores "
              "the product of that derivative automaton with the COMPILED automaton to_automaton() returns, given as "
              "data: in every reachable product state the compiled state is final iff the derivative is nullable, which "
              "decides equality of the two marked languages for ALL words, one TLC run per expression. Expressions come "
              "from the check's seed over all combinators (byte classes, complemented classes, words, concatenation, "
              "union, intersection, complement, difference, star/plus, optional, exact and bounded repetition, separated "
              "lists, delimiters, markers; intersections and differences of a marked with an unmarked operand in both orders - marker 0 "
              "unifies with any marker, complements are unmarked) plus systematic compositions of iteration operators around multi-letter "
              "loops; they are built in the real library in sugared form and given to TLC desugared. "
              "In-circuit parser: for compiled automata the AutomatonChip parses accepted, rejected and boundary words under MockProver with "
              "input and marker outputs exposed; RegexWords.tla recomputes the marker sequence from the derivative semantics and demands "
              "'satisfiable iff in the language, markers as defined', also under tamper plans (hook H1). Base64: Base64.tla defines strict "
              "RFC 4648 decoding (standard and URL-safe alphabets, padded and unpadded; pad-bit canonicity left open as in the RFC); the "
              "fixed-length decoders and the variable-length decoders (Base64Vec) run on every length class, padding form and single-character "
              "corruption, with input and output exposed, honest and tampered."),
        design_ref="DESIGN.md 4/C19",
        note=("The shipped serialized automata are not covered; the variable-length base64 output is compared prover-side (limits are bound); "
              "markers only outside intersections/complements with one fixed marker per byte; unmentioned bytes "
              "represented by one byte; undecided (timeout) expressions are not counted as passed."),
        technique="TLA+/TLC product of derivative automaton (spec) with the extracted compiled automaton, per expression; trace validation of in-circuit parser and base64 runs",
    ),
    "C20": dict(
        category="fault_enumeration",
        text=("Ipa.tla models the inner-product argument over a toy field with group elements "
              "as coordinate vectors over independent bases; TLC explores every scalar vector and challenge sequence (P = 5, N = 2; "
              "P = 3, N = 4; thorough also P = 7) and checks completeness, the folding invariant <s',b'> = <s,b> + u^2 L + u^-2 R, and "
              "that a changed final scalar, claimed value or round message is rejected. Against the code: valid inner proofs of a "
              "standard-library relation over several chip architectures (8/9/10/12 permutation columns, 1..3 lookups; with the Poseidon chip, "
              "hence one additive-selector argument, and without it) are aggregated "
              "through the public API with NB_PROOFS 1, 2 and 3 under a recording transcript; Agg_Trace requires aggregation and "
              "verification to succeed and consume the whole proof, the verifier to read exactly what the prover wrote with "
              "challenges drawn at the same places, the outer layout (n, points, scalars | m, points, committed, evaluated | inner "
              "PLONK proof | IPA: commons, r, k x (L, R, u), s | r) to hold, every corruption of the plan (bit flips, replacement "
              "by another valid point, count +-1, truncation, extension) and every edited or swapped inner public input to be "
              "rejected, invalid inner proofs never to yield an accepted aggregate, and the plan to cover the elements it promises "
              "(quick: the first 12, last 24 and every 6th element; thorough: every element, 12 aggregations). Verifier gadget "
              "(foreign-curve back-end): the repository's own verifier circuit (K = 18) is rebuilt from the public API; for a valid "
              "inner proof MockProver must accept instance = encode(vk identity, OFF-circuit accumulator), the accumulator the "
              "circuit itself exposes (followed through its copy constraints) must equal the off-circuit one and pass the pairing "
              "check, single-position edits of the claimed instance must be unsatisfiable, and for corrupted proofs / public "
              "inputs that still parse both verifiers must derive the same accumulator, which must fail the pairing check."),
        design_ref="DESIGN.md 4/C20",
        note=("The verifier gadget is exercised on one inner circuit shape (Poseidon, k = 10; each MockProver run at K = 18 takes ~10 s). "
              "Not covered: the IVC example, the IPA as a stand-alone function (private module). aggregate_proofs refuses some invalid inner proofs by "
              "panicking instead of returning Err (counted as refusal, noted in the evidence)."),
        technique="TLA+/TLC model checking of the IPA folding argument + spec-checked fault enumeration on recorded aggregator transcripts (trace validation)",
    ),
}

NOT_YET = {
}

ALL = [f"C{i:02d}" for i in range(1, 21)]


def main():
    checks = []
    for pid in ALL:
        if pid not in CHECKS:
            continue
        c = CHECKS[pid]
        checks.append({
            "property_id": pid,
            "quick_cmd": f"./check {pid} quick",
            "thorough_cmd": f"./check {pid} thorough",
            "evidence_file": f"/verif/evidence/{pid}.json",
            "replay_cmd_template": f"./check {pid} --replay {{path}}",
            "engine": "tlc+harness",
            "level_claimed": {"category": c["category"], "text": c["text"], "design_ref": c["design_ref"]},
            "level_note": c["note"],
            "technique": c["technique"],
        })
    na = []
    for pid in ALL:
        if pid not in CHECKS:
            na.append({"property_id": pid,
                       "reason": NOT_YET.get(pid, "check not built yet in this round (planned in DESIGN.md 4); not claimed")})
    m = {
        "version": 1,
        "setup_cmd": "./setup.sh",
        "hooks": {
            "guard": "midnight_zk_verif",
            "enable": "rustflags --cfg midnight_zk_verif in /verif/harness/.cargo/config.toml (the harness builds /repo's crates as path dependencies)",
            "baseline_off_cmd": "cd /repo && cargo nextest run --workspace --no-fail-fast --test-threads 8 --offline || cargo test --workspace --no-fail-fast --offline",
            "source_commits": ["e28cdc2"],
            "add_only": True,
        },
        "engines": [
            {"name": "tlc+harness", "path": "/verif/check",
             "serves_properties": [c["property_id"] for c in checks],
             "kind_free_text": "TLA+ specifications under /verif/spec checked with TLC; Rust conformance harness /verif/harness (path dependency on /repo) producing ndjson traces validated by TLC and replaying TLC-generated scenarios"},
        ],
        "checks": checks,
        "not_applicable": na,
        "notes": "See DESIGN.md. Exit codes: 0 held, 1 with VIOLATION line, 2 tool error.",
    }
    with open(os.path.join(ROOT, "MANIFEST.json"), "w") as f:
        json.dump(m, f, indent=1)
    print(f"MANIFEST.json: {len(checks)} checks, {len(na)} not claimed")


if __name__ == "__main__":
    main()
