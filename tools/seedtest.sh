#!/bin/bash
# usage: tools/seedtest.sh <patch.diff> <ID> [<ID> ...]
# Applies a seeded change to /repo, builds a SEPARATE harness binary (harness/target_seed) from it, restores /repo at
# once, then runs the quick checks on that binary in a separate scratch area (VERIF_ALT=seed). The lock keeps every other
# harness build away from /repo while the change is applied, so checks running on the real tree are not disturbed.
set -u
cd /verif
patch=$(readlink -f "$1"); shift
mkdir -p work
(
  flock 9
  git -C /repo status --short | grep -q . && { echo "seedtest: /repo is not clean"; exit 3; }
  git -C /repo apply "$patch" || { echo "seedtest: patch does not apply"; exit 3; }
  (cd harness && CARGO_NET_OFFLINE=true cargo build --release --offline --target-dir target_seed 2>&1 | tail -3)
  rc=${PIPESTATUS[0]}
  git -C /repo checkout -- .
  git -C /repo status --short | grep -q . && echo "seedtest: WARNING /repo not clean after checkout"
  exit $rc
) 9> work/repo.lock || exit 3
for id in "$@"; do
  VERIF_ALT=seed VERIF_NOBUILD=1 ./check "$id" quick 2>&1 | grep -v '^KNOWN-FINDING' | tail -6 | cut -c1-400
done
