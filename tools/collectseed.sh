#!/bin/bash
# usage: tools/collectseed.sh <worktree> <seed-id>   e.g. /tmp/wt4_c08 C08-4
# Saves patch.diff, meta.json and the demo (untracked files) of a finished sub-agent, then removes the scratch worktree.
set -u
wt=$1; id=$2
d=/verif/seeded/$id
mkdir -p "$d"
cp "$wt/patch.diff" "$d/patch.diff" || exit 1
cp "$wt/meta.json" "$d/meta.json" 2>/dev/null
git -C "$wt" status --porcelain --untracked-files=all | grep '^??' | awk '{print $2}' | grep -v '^patch.diff$\|^meta.json$\|^target' | while read f; do
  if [ -f "$wt/$f" ]; then cp "$wt/$f" "$d/$(basename $f)"; echo "$f" >> "$d/demo_paths.txt"; fi
done
git -C /repo worktree remove --force "$wt"; rm -rf "$wt"; git -C /repo worktree prune
ls "$d"
